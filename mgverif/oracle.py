"""NumPy shadow (O-np) with family/owner/index analysis, and the extended-precision
finite-difference oracle (O-fd) with the injection rule of DESIGN.md section 2.2."""
import numpy as np

from mgverif import ops_table as OT
from mgverif.prog import Interp
from mgverif.hooks import root_array

LD = np.longdouble
INPLACE_KINDS = ("setitem", "aug", "uout")


class Shadow:
    """Runs the program on float64 ndarrays statement by statement and tracks, for every name,
    the family owner, the flat indices it covers in the owner, and the family's epoch start."""

    def __init__(self, prog, skip=()):
        self.prog = prog
        self.skip = set(skip)
        self.it = Interp("np")
        self.owner = {}     # name -> owner name
        self.idx = {}       # name -> int index array into owner (same shape as value)
        self.epoch = {}     # owner name -> statement index after which the family's current values exist
        self.roots = {}     # id(root array) -> owner name
        self._keep = []     # keeps roots alive (no id reuse)
        self.created = {}   # name -> stmt index
        self.raised = {}
        self.pos = 0

    def _register(self, name, i, st):
        v = self.it.env[name]
        self.created[name] = i
        if not isinstance(v, np.ndarray):
            return
        root = root_array(v)
        oname = self.roots.get(id(root))
        if oname is None or st["k"] == "leaf":
            if oname is None:
                self.roots[id(root)] = name
                self._keep.append(root)
                oname = name
            if oname == name:
                self.owner[name] = name
                self.idx[name] = np.arange(v.size).reshape(v.shape)
                self.epoch[name] = i
                return
        # a view of a known family: recompute the index array by replaying the call on index arrays
        self.owner[name] = oname
        if st["k"] in ("alias", "constof"):
            self.idx[name] = self.idx[st["src"]]
            return
        if st["k"] == "leaf":  # view_of leaves not used
            self.idx[name] = np.arange(v.size).reshape(v.shape)
            return
        spec = OT.SPECS[st["fn"]]
        args = []
        replaced = False
        for a in st.get("a", []):
            if isinstance(a, list) and a and a[0] == "r" and self.owner.get(a[1]) == oname and not replaced \
                    and isinstance(self.it.env.get(a[1]), np.ndarray):
                args.append(self.idx[a[1]])
                replaced = True
            else:
                args.append(self.it.dec(a))
        kw = {k: self.it.dec(x) for k, x in st.get("kw", {}).items() if k != "constant"}
        ix = np.asarray(spec.ref(*args, **kw))
        assert ix.shape == v.shape, (st, ix.shape, v.shape)
        self.idx[name] = ix

    def step(self):
        i = self.pos
        st = self.prog[i]
        self.pos += 1
        if i in self.skip:
            return i, st, None
        exc = None
        old_shape = None
        if st["k"] == "setshape" and st["tgt"] in self.it.env:
            old_shape = np.shape(self.it.env[st["tgt"]])
        try:
            self.it.exec(i, st)
        except Exception as e:
            exc = e
            self.raised[i] = e
            return i, st, exc
        k = st["k"]
        if k in ("leaf", "call", "alias", "constof"):
            self._register(st["out"], i, st)
        elif k in INPLACE_KINDS:
            t = st["tgt"]
            if t in self.owner:
                self.epoch[self.owner[t]] = i
        elif k == "sever":
            for t in st["names"]:
                # the other members of t's former family keep the old memory: they must not move t's epoch any more
                old_members = [m for m, o in self.owner.items() if o == t and m != t]
                if old_members:
                    ghost = t + "@before-sever"
                    self.epoch[ghost] = self.epoch.get(t, 0)
                    self.idx[ghost] = self.idx.get(t)
                    for m in old_members:
                        self.owner[m] = ghost
                v = self.it.env[t]
                root = root_array(v)
                self.roots[id(root)] = t
                self._keep.append(root)
                self.owner[t] = t
                self.idx[t] = np.arange(v.size).reshape(v.shape)
                self.epoch[t] = i
        elif k == "setshape":
            t = st["tgt"]
            if t in self.idx:
                self.idx[t] = self.idx[t].reshape(self.it.env[t].shape)
            # MyGrad treats .shape assignment on a memory-owning tensor as an in-place update of that tensor (new epoch) unless
            # the assigned object literally equals the current shape tuple; on a view it leaves the family's epoch alone.
            if self.owner.get(t) == t and self.it.dec(st["shape"]) != old_shape:
                self.epoch[t] = i
        return i, st, exc

    def run_all(self):
        while self.pos < len(self.prog):
            self.step()
        return self

    def family(self, name):
        o = self.owner.get(name)
        return [n for n, oo in self.owner.items() if oo == o]


# ------------------------------------------------------------------------------------------------- O-fd
class FD:
    def __init__(self, prog, skip=(), blocks=()):
        """blocks: statement indices i of in-place statements whose TARGET's previous contents are to be treated as constants (the
        reference then is the program in which, right before statement i, the region the target covers is reset to its unperturbed
        values): used only to CLASSIFY a known finding, never as the verdict's reference."""
        self.prog = prog
        self.skip = set(skip)
        self.nevals = 0
        self.blocks = {}
        if blocks:
            it = Interp("np", fdtype=LD)
            for i, st in enumerate(prog):
                if i in self.skip:
                    continue
                if i in blocks:
                    self.blocks[i] = np.array(it.env[st["tgt"]], copy=True)
                if st["k"] == "backward" and i >= max(blocks):
                    break
                it.exec(i, st)

    def value(self, bw_idx, inject=None):
        """sum(L*g) of the longdouble NumPy program at backward statement bw_idx."""
        it = Interp("np", fdtype=LD)
        n = bw_idx + 1
        for i in range(n):
            if i in self.skip:
                continue
            if i in self.blocks:
                self._exec_blocked(it, i)
            else:
                it.exec(i, self.prog[i])
            if inject and i in inject:
                for name, delta in inject[i]:
                    tgt = it.env[name]
                    if tgt.shape == delta.shape:
                        tgt += delta
                    else:  # the owner was reshaped in place since the index map was taken: same logical (C-order) elements
                        tgt[...] = (tgt.ravel() + delta.ravel()).reshape(tgt.shape)
        self.nevals += 1
        L, g = it.bw[bw_idx]
        L = np.asarray(L, dtype=LD)
        if g is None:
            return L.sum()
        return (L * np.asarray(g, dtype=LD)).sum()

    def _exec_blocked(self, it, i):
        """Statement i with the TARGET's own previous contents held constant: the other operands are read first (from the possibly
        perturbed memory, copied), then the region the target covers is reset to its unperturbed values, then the update is applied."""
        st = self.prog[i]
        tgt = it.env[st["tgt"]]
        cp = lambda v: np.array(v, copy=True) if isinstance(v, np.ndarray) else v
        if st["k"] == "setitem":
            ix, val = it.dec(st["index"]), cp(it.dec(st["value"]))
            tgt[...] = self.blocks[i]
            tgt[ix] = val
        elif st["k"] == "aug":
            val = cp(it.dec(st["value"]))
            tgt[...] = self.blocks[i]
            OT.apply_augmented(st["op"], tgt, val)
        elif st["k"] == "uout":
            spec = OT.SPECS[st["fn"]]
            deep = lambda v: [deep(q) for q in v] if isinstance(v, (list, tuple)) else cp(v)
            args = [deep(it.dec(a)) for a in st["a"]]
            kw = {kk: cp(it.dec(v)) for kk, v in st.get("kw", {}).items() if kk not in ("constant", "dtype")}
            tgt[...] = self.blocks[i]
            spec.ref(*args, out=tgt, **kw)
        else:
            it.exec(i, st)

    def _f(self, bw_idx, stmt, owner, delta, eps):
        return self.value(bw_idx, {stmt: [(owner, (LD(eps) * delta))]})

    def directional(self, bw_idx, stmt, owner, delta, f0=None, h=2.0 ** -10):
        """Central 5-point + Richardson derivative of P along `delta` (array shaped like the owner),
        injected right after statement `stmt`. Returns dict(dc, ec, dl, dr)."""
        delta = np.asarray(delta, dtype=LD)
        h = LD(h)
        f = lambda e: self._f(bw_idx, stmt, owner, delta, e)
        with np.errstate(all="ignore"):
            fp1, fm1 = f(h), f(-h)
            fp2, fm2 = f(2 * h), f(-2 * h)
            fph, fmh = f(h / 2), f(-h / 2)
            d_h = (fm2 - 8 * fm1 + 8 * fp1 - fp2) / (12 * h)
            hh = h / 2
            d_hh = (fm1 - 8 * fmh + 8 * fph - fp1) / (12 * hh)
            dc = (16 * d_hh - d_h) / 15
            ec = abs(d_h - d_hh)
            out = {"dc": dc, "ec": ec}
            if f0 is not None:
                # one-sided, Richardson-combined 3-point estimates (for kink detection)
                s = hh
                dr_s = (-3 * f0 + 4 * fph - fp1) / (2 * s)
                dr_2s = (-3 * f0 + 4 * fp1 - fp2) / (4 * s)
                dl_s = (3 * f0 - 4 * fmh + fm1) / (2 * s)
                dl_2s = (3 * f0 - 4 * fm1 + fm2) / (4 * s)
                out["dr"] = (4 * dr_s - dr_2s) / 3
                out["dl"] = (4 * dl_s - dl_2s) / 3
        return out


def scatter_delta(owner_shape, idx, V):
    d = np.zeros(int(np.prod(owner_shape, dtype=int)), dtype=LD)
    np.add.at(d, np.asarray(idx).ravel(), np.asarray(V, dtype=LD).ravel())
    return d.reshape(owner_shape)


def judge(got, fd, bw_idx, stmt, owner, delta, f0, tau, S):
    """Three-valued comparison of `got` (= <t.grad, V>, longdouble) against O-fd.
    Returns ("ok"|"kink"|"illcond"|"bad", info)."""
    best = None
    for h in (2.0 ** -10, 2.0 ** -13, 2.0 ** -16, 2.0 ** -7):
        r = fd.directional(bw_idx, stmt, owner, delta, f0=f0, h=h)
        dc, ec = r["dc"], r["ec"]
        if not (np.isfinite(dc) and np.isfinite(ec)):
            continue
        if abs(got - dc) <= tau * S + 10 * ec and ec <= max(tau * S, 1e-3 * abs(dc)):
            return "ok", {"ref": float(dc), "ec": float(ec), "h": h}
        if best is None or ec < best[1]["ec"]:
            best = (h, r)
        if ec <= tau * S / 10:
            break
    if best is None:
        return "illcond", {"why": "non-finite reference"}
    h, r = best
    dc, ec, dl, dr = r["dc"], r["ec"], r.get("dl"), r.get("dr")
    info = {"ref": float(dc), "ec": float(ec), "h": h, "got": float(got),
            "dl": None if dl is None else float(dl), "dr": None if dr is None else float(dr)}
    if dl is not None and np.isfinite(dl) and np.isfinite(dr) and abs(dl - dr) > 1e-6 * S:
        lo, hi = min(dl, dr), max(dl, dr)
        tolk = 1e-5 * S + 0.05 * (hi - lo)
        if lo - tolk <= got <= hi + tolk:
            return "kink", info
    if ec > tau * S / 10 and abs(got - dc) <= 1e3 * ec + tau * S:
        return "illcond", info
    if abs(got - dc) <= tau * S + 10 * ec:
        return "ok", info
    return "bad", info

"""Helpers shared by property modules: executing on MyGrad, syntactic analyses of DSL programs."""
import hashlib
import json
import random

import numpy as np

from mgverif import ops_table as OT
from mgverif.prog import Interp
from mgverif.gen.build import collect_refs


def is_tensor(x):
    import mygrad as mg
    return isinstance(x, mg.Tensor)


def snapshot_grads(env):
    out = {}
    for n, v in env.items():
        if is_tensor(v):
            g = v.grad
            out[n] = None if g is None else np.array(g, copy=True)
    return out


def stmt_refs(st):
    k = st["k"]
    if k == "call":
        return collect_refs(st.get("a", [])) + collect_refs(list(st.get("kw", {}).values()))
    if k == "uout":
        return collect_refs(st.get("a", [])) + collect_refs(list(st.get("kw", {}).values())) + [st["tgt"]]
    if k in ("setitem",):
        return [st["tgt"]] + collect_refs([st["value"]]) + collect_refs([st["index"]])
    if k == "aug":
        return [st["tgt"]] + collect_refs([st["value"]])
    if k in ("backward", "clear", "nullgrad", "del", "setshape", "rawwrite"):
        r = [st["tgt"]]
        if k == "backward":
            r += collect_refs([st.get("seed")])
        return r
    if k in ("alias", "constof"):
        return [st["src"]]
    return []


def analyze(prog):
    """Syntactic (DSL-level) facts for functional programs: per name -> dict(tensor, nonconst, parents)."""
    info = {}
    for st in prog:
        k = st["k"]
        if k == "leaf":
            kind = st.get("kind", "tensor")
            isf = np.dtype(st["dtype"]).kind == "f" if kind not in ("pyscalar",) else False
            t = kind == "tensor"
            info[st["out"]] = {"tensor": t, "nonconst": t and isf and st.get("constant") is not True, "parents": [], "leaf": True,
                               "float": isf}
        elif k == "call":
            refs = [r for r in stmt_refs(st) if r in info]
            kwc = st.get("kw", {}).get("constant")
            anyt = any(info[r]["tensor"] for r in refs)
            sp = st.get("sp", "mg")
            tensor = anyt or sp in ("mg",)
            nonconst = any(info[r]["nonconst"] for r in refs)
            if kwc is True:
                nonconst = False
            elif kwc is False:
                nonconst = True
            info[st["out"]] = {"tensor": tensor, "nonconst": nonconst, "parents": [r for r in refs if info[r]["nonconst"]] if nonconst else [],
                               "leaf": False, "fn": st["fn"], "float": True}
        elif k == "alias":
            info[st["out"]] = dict(info[st["src"]])
        elif k == "constof":
            info[st["out"]] = {"tensor": st["how"] != "data", "nonconst": False, "parents": [], "leaf": True, "float": True}
    return info


def upstream(info, L):
    seen, stack = set(), [L]
    while stack:
        n = stack.pop()
        if n in seen or n not in info:
            continue
        seen.add(n)
        stack += info[n]["parents"]
    return seen


def struct_sig(prog):
    """Hash of the program's structure (functions, spellings, wiring, option keys) ignoring literal values."""
    idx = {}
    items = []
    for st in prog:
        k = st["k"]
        if "out" in st:
            idx[st["out"]] = len(idx)
        if k == "leaf":
            items.append(("leaf", st.get("kind"), len(st["shape"]), st.get("constant"), st["dtype"]))
        elif k == "call":
            items.append((st["fn"], st.get("sp"), tuple(idx.get(r, -1) for r in stmt_refs(st)), tuple(sorted(st.get("kw", {})))))
        else:
            items.append((k, st.get("op") or st.get("fn"), tuple(idx.get(r, -1) for r in stmt_refs(st))))
    return hashlib.sha1(repr(items).encode()).hexdigest()[:16]


def swap_commutative(prog, rng):
    """Variant with the operands of commutative calls swapped / shuffled."""
    out, changed = [], 0
    for st in prog:
        if st["k"] == "call" and st["fn"] in OT.COMMUTATIVE and len(st.get("a", [])) >= 2:
            a = list(st["a"])
            if len(a) == 2:
                a = [a[1], a[0]]
            else:
                rng.shuffle(a)
            st2 = dict(st)
            st2["a"] = a
            if st2.get("sp") == "op":
                # keep a Tensor among operator operands (it is, since operands are the same)
                pass
            if st2.get("sp") == "meth":
                st2["sp"] = "mg"
            out.append(st2)
            changed += 1
        else:
            out.append(st)
    return out, changed


def reorder_topological(prog, rng):
    """Re-emit the leaf/call prefix of a functional program in another random topological order."""
    body = [st for st in prog if st["k"] in ("leaf", "call")]
    tail = [st for st in prog if st["k"] not in ("leaf", "call")]
    defined_by = {st["out"]: i for i, st in enumerate(body)}
    deps = {i: {defined_by[r] for r in stmt_refs(st) if r in defined_by} for i, st in enumerate(body)}
    done, order = set(), []
    remaining = set(range(len(body)))
    while remaining:
        ready = sorted(i for i in remaining if deps[i] <= done)
        i = rng.choice(ready)
        order.append(i)
        done.add(i)
        remaining.discard(i)
    moved = sum(1 for a, b in zip(order, range(len(body))) if a != b)
    return [body[i] for i in order] + tail, moved


def values_close(a, b, rtol, atol):
    a, b = np.asarray(a), np.asarray(b)
    if a.shape != b.shape:
        return False
    with np.errstate(all="ignore"):
        return bool(np.all(np.abs(a.astype(np.longdouble) - b.astype(np.longdouble)) <= atol + rtol * np.abs(b.astype(np.longdouble))) )

"""Hook layer: wraps attributes of the *imported* mygrad package (no source changes in /repo).

Wrappers record and return; they never raise inside the code they observe, except the
fault-injection wrapper around Operation.__call__ which raises InjectedFault exactly at the
kernel boundary when a property's workload asks for it.

Installed only when MYGRAD_VERIF=1.
"""
import os
import sys
import weakref
import importlib
import pkgutil

import numpy as np

_INSTALLED = False


class InjectedFault(Exception):
    """Raised by the fault-injection wrapper at the kernel boundary of an Operation."""


class Registry:
    """Weak registry of everything MyGrad created since the last reset()."""

    def __init__(self):
        self.reset()
        self.enabled = True
        # counters that survive reset (hook reach, for "zero evaluations => inconclusive")
        self.reach = {}

    def reset(self):
        self.tensors = []       # weakrefs
        self.ops = []           # weakrefs
        self.placeholders = []  # weakrefs
        self.events = []        # (kind, payload...) tuples; see each wrapper
        self.lock_events = []   # ("lock"|"unlock", id(arr), wref(arr))
        self.arrival = []       # (op class, var_index, was_none, layout) from Operation.backward
        self.max_abs_grad = 0.0
        self.fault = None       # dict(mode="before"|"after", countdown=int, only=None|clsname)
        self.fault_fired = []
        self.bw_fault = None    # dict(mode="before"|"after", countdown=int): raise InjectedFault in the countdown-th Operation.backward
        self.opclasses = set()
        self.gc_inject = None

    def hit(self, name):
        self.reach[name] = self.reach.get(name, 0) + 1


REG = Registry()


def _import_all_mygrad():
    import mygrad
    for m in pkgutil.walk_packages(mygrad.__path__, "mygrad."):
        try:
            importlib.import_module(m.name)
        except Exception:  # optional modules
            pass
    return mygrad


def all_operation_subclasses():
    from mygrad.operation_base import Operation
    out, stack = [], [Operation]
    seen = set()
    while stack:
        c = stack.pop()
        for s in c.__subclasses__():
            if s not in seen:
                seen.add(s)
                out.append(s)
                stack.append(s)
    return out


def install():
    global _INSTALLED
    if _INSTALLED:
        return
    if os.environ.get("MYGRAD_VERIF") != "1":
        raise RuntimeError("mgverif.hooks.install() refused: MYGRAD_VERIF != 1")
    mygrad = _import_all_mygrad()
    from mygrad import tensor_base as tb
    from mygrad.tensor_base import Tensor
    from mygrad.operation_base import Operation
    from mygrad._utils import duplicating_graph as _dup
    from mygrad._utils import lock_management as _mem

    # ---- Tensor.__init__ -------------------------------------------------------------
    orig_init = Tensor.__init__

    def __init__(self, *a, **k):
        orig_init(self, *a, **k)
        if REG.enabled:
            REG.hit("Tensor.__init__")
            REG.tensors.append(weakref.ref(self))

    __init__.__wrapped__ = orig_init
    Tensor.__init__ = __init__

    # ---- Operation.__call__ of every subclass (registration + fault injection) -----------
    def wrap_call(cls):
        orig_call = cls.__dict__["__call__"]
        if getattr(orig_call, "_mgverif", False):
            return

        def __call__(self, *a, **k):
            if REG.enabled:
                REG.hit("Operation.__call__")
                REG.ops.append(weakref.ref(self))
                REG.opclasses.add(type(self).__name__)
                f = REG.fault
                if f is not None and (f.get("only") is None or f["only"] == type(self).__name__):
                    if f["countdown"] == 0:
                        f["countdown"] = -1
                        REG.fault_fired.append((type(self).__name__, f["mode"]))
                        if f["mode"] == "before":
                            raise InjectedFault("injected before kernel")
                        out = orig_call(self, *a, **k)
                        raise InjectedFault("injected after kernel")
                    elif f["countdown"] > 0:
                        f["countdown"] -= 1
            return orig_call(self, *a, **k)

        __call__._mgverif = True
        __call__.__wrapped__ = orig_call
        __call__.__doc__ = getattr(orig_call, "__doc__", None)
        cls.__call__ = __call__

    for cls in all_operation_subclasses():
        if "__call__" in cls.__dict__:
            wrap_call(cls)

    # ---- Operation.backward: arrival order / layout of first contribution ----------------
    orig_obackward = Operation.backward

    def obackward(self, grad, **kwargs):
        if not REG.enabled:
            return orig_obackward(self, grad, **kwargs)
        REG.hit("Operation.backward")
        try:
            vars_ = tuple(self.variables)
            before = [v._grad is None for v in vars_]
        except Exception:
            vars_, before = (), []
        bf = REG.bw_fault
        fire = False
        if bf is not None:
            if bf["countdown"] == 0:
                bf["countdown"] = -1
                fire = True
                REG.fault_fired.append((type(self).__name__, "backward:" + bf["mode"]))
                if bf["mode"] == "before":
                    raise InjectedFault("injected before an operation's backward")
            elif bf["countdown"] > 0:
                bf["countdown"] -= 1
        try:
            r = orig_obackward(self, grad, **kwargs)
            if fire:
                raise InjectedFault("injected after an operation's backward")
            return r
        finally:
            try:
                for i, v in enumerate(vars_):
                    g = v._grad
                    if g is not None and isinstance(g, np.ndarray):
                        if before[i]:
                            lay = ("C" if g.flags.c_contiguous else "") + ("F" if g.flags.f_contiguous else "")
                            REG.arrival.append((type(self).__name__, i, lay or "N", id(v)))
                        if g.size and g.dtype.kind == "f":
                            with np.errstate(all="ignore"):
                                m = float(np.max(np.abs(g)))
                            if m == m and m > REG.max_abs_grad:
                                REG.max_abs_grad = m
            except Exception:
                pass

    obackward.__wrapped__ = orig_obackward
    Operation.backward = obackward

    # ---- Tensor._op (API boundary of every differentiable call) ----------------------------
    orig_op = Tensor.__dict__["_op"].__func__

    def _op(cls, Op, *input_vars, **kw):
        if not REG.enabled:
            return orig_op(cls, Op, *input_vars, **kw)
        REG.hit("Tensor._op")
        from mygrad._utils import graph_tracking as _track
        ev = ["op", Op.__name__, _track.TRACK_GRAPH, _mem.MEM_GUARD, None]
        REG.events.append(ev)
        try:
            out = orig_op(cls, Op, *input_vars, **kw)
        except BaseException as e:
            ev[4] = "raise:" + type(e).__name__
            raise
        ev[4] = "ok"
        return out

    Tensor._op = classmethod(_op)
    mygrad.execute_op = Tensor._op

    # ---- Tensor._in_place_op ----------------------------------------------------------------
    orig_ipo = Tensor._in_place_op

    def _in_place_op(self, inplace_op, *a, **k):
        if not REG.enabled:
            return orig_ipo(self, inplace_op, *a, **k)
        REG.hit("Tensor._in_place_op")
        ev = ["inplace", inplace_op.__name__, id(self), None]
        REG.events.append(ev)
        try:
            out = orig_ipo(self, inplace_op, *a, **k)
        except BaseException as e:
            ev[3] = "raise:" + type(e).__name__
            raise
        ev[3] = "ok"
        return out

    Tensor._in_place_op = _in_place_op

    # ---- placeholders -----------------------------------------------------------------------
    orig_mk = _dup.make_placeholder_tensor

    def make_placeholder_tensor(original, *, base=None):
        p = orig_mk(original, base=base)
        if REG.enabled:
            REG.hit("make_placeholder_tensor")
            REG.placeholders.append(weakref.ref(p))
        return p

    _dup.make_placeholder_tensor = make_placeholder_tensor

    # ---- lock management ----------------------------------------------------------------------
    orig_lock = _mem.lock_arr_writeability
    orig_rel = _mem._release_lock_on_arr_writeability

    def lock_arr_writeability(arr, force_lock=False):
        if REG.enabled:
            REG.hit("lock_arr_writeability")
            try:
                REG.lock_events.append(("lock", id(arr), weakref.ref(arr), bool(arr.flags.writeable)))
            except TypeError:
                pass
        return orig_lock(arr, force_lock=force_lock)

    def _release_lock_on_arr_writeability(arr):
        r = orig_rel(arr)
        if REG.enabled:
            REG.hit("release_lock")
            try:
                REG.lock_events.append(("unlock", id(arr), weakref.ref(arr), bool(arr.flags.writeable)))
            except TypeError:
                pass
        return r

    _mem.lock_arr_writeability = lock_arr_writeability
    _mem._release_lock_on_arr_writeability = _release_lock_on_arr_writeability

    # ---- context managers ---------------------------------------------------------------------
    from mygrad._utils import ContextTracker
    orig_enter = ContextTracker.__enter__
    orig_exit = ContextTracker.__exit__

    def __enter__(self):
        r = orig_enter(self)
        if REG.enabled:
            REG.hit("ContextTracker.__enter__")
            REG.events.append(["enter", type(self).__name__])
        return r

    def __exit__(self, et, ev, tb):
        r = orig_exit(self, et, ev, tb)
        if REG.enabled:
            REG.hit("ContextTracker.__exit__")
            REG.events.append(["exit", type(self).__name__, et is not None])
        return r

    ContextTracker.__enter__ = __enter__
    ContextTracker.__exit__ = __exit__

    # ---- as_strided as imported by nnet.layers.utils / linalg.ops -------------------------------
    try:
        from mygrad.nnet.layers import utils as _lu
        from mygrad.linalg import ops as _lo
        from numpy.lib.stride_tricks import as_strided as _as

        def mk(orig):
            def as_strided(x, shape=None, strides=None, **kw):
                out = orig(x, shape=shape, strides=strides, **kw)
                if REG.enabled:
                    REG.hit("as_strided")
                    REG.events.append(["as_strided", x, out])
                return out
            return as_strided

        if hasattr(_lu, "as_strided"):
            _lu.as_strided = mk(_lu.as_strided)
        if hasattr(_lo, "as_strided"):
            _lo.as_strided = mk(_lo.as_strided)
    except Exception:
        pass

    _INSTALLED = True


def live(refs):
    return [o for o in (r() for r in refs) if o is not None]


def byte_bounds(a):
    """(low, high) byte addresses touched by array `a` (high exclusive); None if empty."""
    if a.size == 0:
        return None
    lo = hi = a.__array_interface__["data"][0]
    for n, s in zip(a.shape, a.strides):
        if s < 0:
            lo += (n - 1) * s
        else:
            hi += (n - 1) * s
    return lo, hi + a.itemsize


def root_array(a):
    """Follow .base to the ndarray (or foreign object) that owns the memory."""
    while isinstance(a, np.ndarray) and a.base is not None and isinstance(a.base, np.ndarray):
        a = a.base
    return a

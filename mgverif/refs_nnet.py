"""Independent loop references for MyGrad's neural-network layer functions.

Every function here is written from the *documentation* (docstrings and the
formulas they state) of

    mygrad.nnet.layers.utils.sliding_window_view
    mygrad.nnet.layers.conv_nd / max_pool / batchnorm / gru
    mygrad.nnet.activations.softmax / logsoftmax
    mygrad.nnet.losses.*

and, for the acceptance rule of ``sliding_window_view``, from what the
repository's tests pin (tests/nnet/test_sliding_window.py).  Nothing here is
derived from the implementation code: it is meant to be a second, independent
version.

Conventions
-----------
* plain NumPy arrays in, plain NumPy arrays out (scalar losses are returned as
  0-d arrays);
* all arithmetic happens in the dtype of the floating-point inputs
  (``np.result_type`` of them): float64 and numpy.longdouble both work, and
  there is no hidden cast to float64.  Python-number parameters (eps, hinge,
  margin, alpha, gamma) are converted with ``dtype.type(value)``;
* integer label arrays stay integer and are only used as indices;
* explicit Python loops over output positions; the arrays are tiny.

Documentation notes (things the docs state ambiguously, and the reading used)
---------------------------------------------------------------------------
* sliding_window_view, "Window placement": the docstring prints
  ``X = (x - (W - 1) * D + 1) // S + 1``.  Read literally that contradicts the
  docstring's own example (6x6 array, window (3, 2), step (2, 2) -> grid
  (2, 3)); the reading consistent with the examples, with the "applied only to
  valid regions" sentence and with the indexing identity
  ``out[i] == x[..., i*S:(i*S + W*D):D]`` is
  ``X = (x - ((W - 1) * D + 1)) // S + 1`` which is what is used here.
* batchnorm: "mean and variance over axis-1" is read as "per entry of axis 1"
  ("normalized within each entry of C"), i.e. the statistics are taken over all
  axes except axis 1; the docstring example fixes the variance as the biased
  one.
* multiclass_hinge: the docstring gives no formula; the standard multiclass
  (Weston-Watkins) hinge is used: mean_i sum_{j != y_i} max(0, s_ij - s_iy_i +
  hinge), which is also what tests/nnet/losses/test_hinge.py spells out.
* negative_log_likelihood: "average (weighted)" - the docstring example
  (weights [2, 1, 1] -> 9.2 for N = 1) fixes the normalisation as 1/N (not
  1/sum of weights).
* margin_ranking_loss: ``mean(maximum(0, margin - y * (x1 - x2)))`` where, for
  shape-(N, D) inputs, ``y[i]`` applies to row ``i`` ("for each of the N
  comparisons") and the mean runs over all N*D elements.
"""

import numbers
from itertools import product

import numpy as np

__all__ = [
    "norm_tuple",
    "swv_valid",
    "swv_ref",
    "conv_valid",
    "conv_ref",
    "pool_valid",
    "max_pool_ref",
    "batchnorm_ref",
    "gru_ref",
    "softmax_ref",
    "logsoftmax_ref",
    "softmax_crossentropy_ref",
    "negative_log_likelihood_ref",
    "multiclass_hinge_ref",
    "margin_ranking_loss_ref",
    "focal_loss_ref",
    "softmax_focal_loss_ref",
]


# --------------------------------------------------------------------------
# small helpers
# --------------------------------------------------------------------------


def _is_int(v):
    """A genuine integer (Python int or NumPy integer); bools do not count."""
    return isinstance(v, numbers.Integral) and not isinstance(v, (bool, np.bool_))


def _is_seq(v):
    """A sequence of items (list/tuple/1-d array); strings do not count."""
    if isinstance(v, (str, bytes)):
        return False
    if isinstance(v, np.ndarray):
        return v.ndim == 1
    return isinstance(v, (list, tuple))


def norm_tuple(v, n):
    """Return ``v`` as a tuple of ``n`` Python ints.

    An integer is repeated ``n`` times; a sequence must already have length
    ``n``.
    """
    if _is_int(v):
        return (int(v),) * n
    if not _is_seq(v):
        raise TypeError(f"expected an int or a sequence of ints, got {v!r}")
    out = tuple(v)
    if len(out) != n:
        raise ValueError(f"expected {n} values, got {len(out)}: {v!r}")
    if not all(_is_int(i) for i in out):
        raise TypeError(f"expected integers, got {v!r}")
    return tuple(int(i) for i in out)


def _int_tuple_or_none(v, n, minimum, allow_scalar=True):
    """``norm_tuple`` that returns None instead of raising, and that also
    checks ``item >= minimum``."""
    if _is_int(v) and not allow_scalar:
        return None
    try:
        out = norm_tuple(v, n)
    except (TypeError, ValueError):
        return None
    if any(i < minimum for i in out):
        return None
    return out


def _float_dtype(*arrs):
    """The dtype in which to compute: result type of the float inputs."""
    fl = [np.asarray(a).dtype for a in arrs if a is not None]
    fl = [d for d in fl if d.kind == "f"]
    if not fl:
        return np.dtype(np.float64)
    return np.result_type(*fl)


def _placements(x, w, s, d):
    """Documented number of window placements along one axis."""
    return (x - ((w - 1) * d + 1)) // s + 1


# --------------------------------------------------------------------------
# sliding_window_view
# --------------------------------------------------------------------------


def swv_valid(shape, window_shape, step, dilation):
    """Acceptance rule for ``sliding_window_view(arr, window_shape, step,
    dilation)`` with ``arr.shape == shape``, as pinned by the repository tests.

    * window_shape: a sequence of positive integers, ``len <= arr.ndim``;
    * step: a positive int, or a same-length sequence of positive ints;
    * dilation: None, a positive int, or a same-length sequence of positive
      ints;
    * every window size <= the size of the corresponding trailing axis;
    * with a dilation given, ``window * dilation <=`` the corresponding
      trailing axis size.
    """
    shape = tuple(shape)
    if not _is_seq(window_shape):
        return False
    nwin = len(window_shape)
    if nwin > len(shape):
        return False
    win = _int_tuple_or_none(window_shape, nwin, 1, allow_scalar=False)
    if win is None:
        return False
    stp = _int_tuple_or_none(step, nwin, 1)
    if stp is None:
        return False
    if dilation is None:
        dil = None
    else:
        dil = _int_tuple_or_none(dilation, nwin, 1)
        if dil is None:
            return False
    trailing = shape[len(shape) - nwin :]
    for k in range(nwin):
        if win[k] > trailing[k]:
            return False
        if dil is not None and win[k] * dil[k] > trailing[k]:
            return False
    return True


def swv_ref(arr, window_shape, step, dilation):
    """``out[g0.., n0.., w0..] = arr[n0.., g0*step0 + w0*dil0, ...]``.

    The output has shape ``grid + leading + window`` where along an axis of
    size x there are ``(x - ((W-1)*D + 1)) // S + 1`` placements.
    """
    arr = np.asarray(arr)
    nwin = len(window_shape)
    win = norm_tuple(window_shape, nwin)
    stp = norm_tuple(step, nwin)
    dil = (1,) * nwin if dilation is None else norm_tuple(dilation, nwin)

    nlead = arr.ndim - nwin
    lead = arr.shape[:nlead]
    trailing = arr.shape[nlead:]
    grid = tuple(
        _placements(trailing[k], win[k], stp[k], dil[k]) for k in range(nwin)
    )
    if any(g < 1 for g in grid):
        raise ValueError("the window does not fit inside the array")

    out = np.empty(grid + lead + win, dtype=arr.dtype)
    for g in np.ndindex(*grid):
        for n in np.ndindex(*lead):
            for w in np.ndindex(*win):
                src = tuple(g[k] * stp[k] + w[k] * dil[k] for k in range(nwin))
                out[g + n + w] = arr[n + src]
    return out


# --------------------------------------------------------------------------
# conv_nd
# --------------------------------------------------------------------------


def conv_valid(x_shape, w_shape, stride, padding, dilation):
    """True when ``conv_nd(x, w, stride=, padding=, dilation=)`` is a valid
    call according to the documentation.

    x: (N, C, X0, ...), w: (F, C, W0, ...); same C, same number (>= 1) of
    spatial axes; stride/dilation positive ints, padding non-negative ints
    (int or per-axis tuple); and, along each spatial axis,
    ``(X + 2p - ((W-1)*d + 1)) / s + 1`` is a positive integer (every filter
    placement lies inside the padded data and the placements tile it exactly).
    """
    x_shape, w_shape = tuple(x_shape), tuple(w_shape)
    if len(x_shape) != len(w_shape) or len(x_shape) < 3:
        return False
    if x_shape[1] != w_shape[1]:
        return False
    ns = len(x_shape) - 2
    st = _int_tuple_or_none(stride, ns, 1)
    pd = _int_tuple_or_none(padding, ns, 0)
    dl = _int_tuple_or_none(dilation, ns, 1)
    if st is None or pd is None or dl is None:
        return False
    for k in range(ns):
        X, W = x_shape[2 + k], w_shape[2 + k]
        if X < 1 or W < 1:
            return False
        room = X + 2 * pd[k] - ((W - 1) * dl[k] + 1)
        if room < 0 or room % st[k] != 0:
            return False
    return True


def conv_ref(x, w, stride, padding, dilation):
    """(N, C, X0, ...) * (F, C, W0, ...) -> (N, F, G0, ...): cross-correlation
    (filters not flipped) over the data zero-padded by ``padding`` at both ends
    of each spatial axis::

        out[n, f, g] = sum_{c, k} xpad[n, c, g*s + k*d] * w[f, c, k]
    """
    x = np.asarray(x)
    w = np.asarray(w)
    dt = _float_dtype(x, w)
    ns = x.ndim - 2
    st = norm_tuple(stride, ns)
    pd = norm_tuple(padding, ns)
    dl = norm_tuple(dilation, ns)
    N, C = x.shape[:2]
    F = w.shape[0]
    X = x.shape[2:]
    W = w.shape[2:]

    padded = tuple(X[k] + 2 * pd[k] for k in range(ns))
    xp = np.zeros((N, C) + padded, dtype=dt)
    for idx in np.ndindex(*x.shape):
        dst = idx[:2] + tuple(idx[2 + k] + pd[k] for k in range(ns))
        xp[dst] = x[idx]

    grid = []
    for k in range(ns):
        room = padded[k] - ((W[k] - 1) * dl[k] + 1)
        if room < 0 or room % st[k] != 0:
            raise ValueError("invalid convolution configuration")
        grid.append(room // st[k] + 1)
    grid = tuple(grid)

    out = np.zeros((N, F) + grid, dtype=dt)
    for n in range(N):
        for f in range(F):
            for g in np.ndindex(*grid):
                acc = dt.type(0)
                for c in range(C):
                    for k in np.ndindex(*W):
                        src = tuple(g[a] * st[a] + k[a] * dl[a] for a in range(ns))
                        acc = acc + xp[(n, c) + src] * dt.type(w[(f, c) + k])
                out[(n, f) + g] = acc
    return out


# --------------------------------------------------------------------------
# max_pool
# --------------------------------------------------------------------------


def pool_valid(x_shape, pool, stride):
    """True when ``max_pool(x, pool, stride)`` is a valid call per the docs:
    pool a tuple of positive ints (len <= x.ndim, applied to the trailing
    axes), stride a positive int or same-length tuple of positive ints, and for
    every pooled axis ``(X - P)/s + 1`` is a positive integer."""
    x_shape = tuple(x_shape)
    if not _is_seq(pool):
        return False
    npool = len(pool)
    if npool > len(x_shape):
        return False
    pl = _int_tuple_or_none(pool, npool, 1, allow_scalar=False)
    st = _int_tuple_or_none(stride, npool, 1)
    if pl is None or st is None:
        return False
    trailing = x_shape[len(x_shape) - npool :]
    for k in range(npool):
        room = trailing[k] - pl[k]
        if room < 0 or room % st[k] != 0:
            return False
    return True


def max_pool_ref(x, pool, stride):
    """Max over each ``pool``-shaped window placed with ``stride`` on the
    trailing axes: output shape ``leading + (G0, ...)``."""
    x = np.asarray(x)
    npool = len(pool)
    pl = norm_tuple(pool, npool)
    st = norm_tuple(stride, npool)
    nlead = x.ndim - npool
    lead = x.shape[:nlead]
    trailing = x.shape[nlead:]
    grid = []
    for k in range(npool):
        room = trailing[k] - pl[k]
        if room < 0 or room % st[k] != 0:
            raise ValueError("invalid pooling configuration")
        grid.append(room // st[k] + 1)
    grid = tuple(grid)

    out = np.empty(lead + grid, dtype=x.dtype)
    for n in np.ndindex(*lead):
        for g in np.ndindex(*grid):
            best = None
            for p in np.ndindex(*pl):
                v = x[n + tuple(g[k] * st[k] + p[k] for k in range(npool))]
                if best is None or v > best or v != v:
                    best = v
                if best != best:  # NaN wins, as with numpy's max
                    break
            out[n + g] = best
    return out


# --------------------------------------------------------------------------
# batchnorm
# --------------------------------------------------------------------------


def batchnorm_ref(x, gamma, beta, eps):
    """x: (N, C, ...).  Per channel c (axis 1): mean and *biased* variance over
    all other axes, ``y = (x - mean) / sqrt(var + eps)``, then optionally
    ``y * gamma[c]`` and ``+ beta[c]``."""
    x = np.asarray(x)
    dt = _float_dtype(x, gamma, beta)
    C = x.shape[1]
    rest = x.shape[:1] + x.shape[2:]
    count = 1
    for r in rest:
        count *= r
    out = np.empty(x.shape, dtype=dt)
    e = dt.type(eps)
    for c in range(C):
        positions = [r[:1] + (c,) + r[1:] for r in np.ndindex(*rest)]
        total = dt.type(0)
        for p in positions:
            total = total + dt.type(x[p])
        mean = total / dt.type(count)
        sq = dt.type(0)
        for p in positions:
            dev = dt.type(x[p]) - mean
            sq = sq + dev * dev
        var = sq / dt.type(count)
        denom = np.sqrt(var + e)
        for p in positions:
            y = (dt.type(x[p]) - mean) / denom
            if gamma is not None:
                y = y * dt.type(np.asarray(gamma)[c])
            if beta is not None:
                y = y + dt.type(np.asarray(beta)[c])
            out[p] = y
    return out


# --------------------------------------------------------------------------
# GRU
# --------------------------------------------------------------------------


def _sigmoid(v):
    one = type(v)(1)
    return one / (one + np.exp(-v))


def gru_ref(X, Uz, Wz, bz, Ur, Wr, br, Uh, Wh, bh, s0=None):
    """Hidden-state sequence S of shape (T+1, N, D), S[0] = s0 (or zeros)::

        Z_t = sigmoid(X_t Uz + S_{t-1} Wz + bz)
        R_t = sigmoid(X_t Ur + S_{t-1} Wr + br)
        H_t =    tanh(X_t Uh + (R_t * S_{t-1}) Wh + bh)
        S_t = (1 - Z_t) * H_t + Z_t * S_{t-1}

    X: (T, N, C); U*: (C, D); W*: (D, D); b*: (D,).  No dropout.
    """
    X = np.asarray(X)
    params = [np.asarray(a) for a in (Uz, Wz, bz, Ur, Wr, br, Uh, Wh, bh)]
    Uz, Wz, bz, Ur, Wr, br, Uh, Wh, bh = params
    dt = _float_dtype(X, *params, s0)
    T, N, C = X.shape
    D = Uz.shape[1]
    one = dt.type(1)

    S = np.zeros((T + 1, N, D), dtype=dt)
    if s0 is not None:
        s0 = np.asarray(s0)
        for n in range(N):
            for j in range(D):
                S[0, n, j] = s0[n, j]

    def affine(t, n, j, U, W, b, prev):
        acc = dt.type(0)
        for c in range(C):
            acc = acc + dt.type(X[t, n, c]) * dt.type(U[c, j])
        for k in range(D):
            acc = acc + prev[k] * dt.type(W[k, j])
        return acc + dt.type(b[j])

    for t in range(1, T + 1):
        for n in range(N):
            prev = [S[t - 1, n, k] for k in range(D)]
            Z = [_sigmoid(affine(t - 1, n, j, Uz, Wz, bz, prev)) for j in range(D)]
            R = [_sigmoid(affine(t - 1, n, j, Ur, Wr, br, prev)) for j in range(D)]
            gated = [R[k] * prev[k] for k in range(D)]
            H = [np.tanh(affine(t - 1, n, j, Uh, Wh, bh, gated)) for j in range(D)]
            for j in range(D):
                S[t, n, j] = (one - Z[j]) * H[j] + Z[j] * prev[j]
    return S


# --------------------------------------------------------------------------
# softmax / log-softmax
# --------------------------------------------------------------------------


def _norm_axes(axis, ndim):
    if axis is None:
        return tuple(range(ndim))
    if _is_int(axis):
        axis = (axis,)
    axes = []
    for a in axis:
        a = int(a)
        if not -ndim <= a < ndim:
            raise ValueError(f"axis {a} is out of bounds for ndim {ndim}")
        a %= ndim
        if a in axes:
            raise ValueError("repeated axis")
        axes.append(a)
    return tuple(sorted(axes))


def _groups(shape, axes):
    """Yield, for each position on the non-normalised axes, the list of full
    index tuples that are normalised together."""
    ndim = len(shape)
    kept = [a for a in range(ndim) if a not in axes]
    kept_shape = [shape[a] for a in kept]
    red_shape = [shape[a] for a in axes]
    for kidx in product(*(range(s) for s in kept_shape)):
        group = []
        for ridx in product(*(range(s) for s in red_shape)):
            full = [0] * ndim
            for a, i in zip(kept, kidx):
                full[a] = i
            for a, i in zip(axes, ridx):
                full[a] = i
            group.append(tuple(full))
        yield group


def _softmax_like(x, axis, log):
    x = np.asarray(x)
    dt = _float_dtype(x)
    out = np.empty(x.shape, dtype=dt)
    axes = _norm_axes(axis, x.ndim)
    for group in _groups(x.shape, axes):
        if not group:
            continue
        vals = [dt.type(x[i]) for i in group]
        # exp(x)/sum(exp(x)) is unchanged by subtracting a constant from x;
        # the documentation promises a numerically stable evaluation.
        top = vals[0]
        for v in vals[1:]:
            if v > top:
                top = v
        total = dt.type(0)
        for v in vals:
            total = total + np.exp(v - top)
        for i, v in zip(group, vals):
            if log:
                out[i] = (v - top) - np.log(total)
            else:
                out[i] = np.exp(v - top) / total
    return out


def softmax_ref(x, axis):
    """``exp(x) / sum(exp(x))`` with the sum over ``axis`` (None: all axes;
    int; tuple of ints)."""
    return _softmax_like(x, axis, log=False)


def logsoftmax_ref(x, axis):
    """``log(exp(x) / sum(exp(x)))`` with the sum over ``axis``."""
    return _softmax_like(x, axis, log=True)


# --------------------------------------------------------------------------
# losses
# --------------------------------------------------------------------------


def _labels(y, n):
    y = np.asarray(y)
    if y.dtype.kind not in "iu":
        raise TypeError("labels must be integers")
    if y.shape != (n,):
        raise ValueError("labels must have shape (N,)")
    return y


def softmax_crossentropy_ref(x, y_true):
    """``L = 1/N sum_i l_i`` with ``l_i = -sum_k t_k log p_k = -log p_{y_i}``,
    ``p`` the softmax of row i of ``x`` (N, C)."""
    x = np.asarray(x)
    dt = _float_dtype(x)
    N = x.shape[0]
    y = _labels(y_true, N)
    logp = logsoftmax_ref(x, -1)
    total = dt.type(0)
    for i in range(N):
        total = total - logp[i, int(y[i])]
    return np.asarray(total / dt.type(N), dtype=dt)


def negative_log_likelihood_ref(x, y_true, weights=None):
    """``-1/N sum_i weights[y_i] * x[i, y_i]`` for log-probabilities ``x``
    (N, C); ``weights`` (C,) defaults to ones."""
    x = np.asarray(x)
    dt = _float_dtype(x, weights)
    N = x.shape[0]
    y = _labels(y_true, N)
    if weights is not None:
        weights = np.asarray(weights)
    total = dt.type(0)
    for i in range(N):
        k = int(y[i])
        term = dt.type(x[i, k])
        if weights is not None:
            term = term * dt.type(weights[k])
        total = total - term
    return np.asarray(total / dt.type(N), dtype=dt)


def multiclass_hinge_ref(x, y_true, hinge=1.0):
    """``1/N sum_i sum_{j != y_i} max(0, x[i, j] - x[i, y_i] + hinge)``."""
    x = np.asarray(x)
    dt = _float_dtype(x)
    N, K = x.shape
    y = _labels(y_true, N)
    h = dt.type(hinge)
    zero = dt.type(0)
    total = dt.type(0)
    for i in range(N):
        k = int(y[i])
        for j in range(K):
            if j == k:
                continue
            m = dt.type(x[i, j]) - dt.type(x[i, k]) + h
            if m > zero:
                total = total + m
    return np.asarray(total / dt.type(N), dtype=dt)


def margin_ranking_loss_ref(x1, x2, y, margin):
    """``mean(max(0, margin - y * (x1 - x2)))``; x1, x2: (N,) or (N, D); y a
    scalar or shape (N,) (y[i] applies to row i); mean over all elements."""
    x1 = np.asarray(x1)
    x2 = np.asarray(x2)
    y = np.asarray(y)
    dt = _float_dtype(x1, x2)
    if x1.shape != x2.shape or x1.ndim not in (1, 2):
        raise ValueError("x1 and x2 must have the same shape (N,) or (N, D)")
    if y.ndim not in (0, 1) or (y.ndim == 1 and y.shape[0] != x1.shape[0]):
        raise ValueError("y must be a scalar or have shape (N,)")
    m = dt.type(margin)
    zero = dt.type(0)
    total = dt.type(0)
    count = 0
    for idx in np.ndindex(*x1.shape):
        yi = y[()] if y.ndim == 0 else y[idx[0]]
        v = m - dt.type(yi) * (dt.type(x1[idx]) - dt.type(x2[idx]))
        if v > zero:
            total = total + v
        count += 1
    return np.asarray(total / dt.type(count), dtype=dt)


def focal_loss_ref(class_probs, targets, alpha=1, gamma=0):
    """Per-datum focal loss, shape (N,):
    ``-alpha * (1 - p_i)**gamma * log(p_i)`` with ``p_i = class_probs[i,
    targets[i]]``."""
    p = np.asarray(class_probs)
    dt = _float_dtype(p)
    N = p.shape[0]
    t = _labels(targets, N)
    a = dt.type(alpha)
    g = dt.type(gamma)
    one = dt.type(1)
    out = np.empty((N,), dtype=dt)
    for i in range(N):
        pi = dt.type(p[i, int(t[i])])
        out[i] = -a * (one - pi) ** g * np.log(pi)
    return out


def softmax_focal_loss_ref(scores, targets, alpha=1, gamma=0):
    """``focal_loss`` of the row-wise softmax of ``scores`` (N, C)."""
    return focal_loss_ref(softmax_ref(scores, -1), targets, alpha=alpha, gamma=gamma)

"""Program DSL (JSON-able) and its two interpreters.

A program is a list of statements (dicts).  `Interp("mg")` executes it on real MyGrad tensors,
holding exactly the references a user program would hold; `Interp("np", fdtype=...)` executes the
same statements on ndarrays (float64 shadow, or longdouble reference for finite differences).

Value codec (JSON):   ["r",name]  reference            ["a",dtype,shape,flat]  ndarray literal
                      ["s",dtype,v] numpy scalar       ["t",[..]] tuple   ["l",[..]] list
                      ["sl",a,b,c] slice  ["e"] Ellipsis  ["dt",name] dtype    plain JSON scalars/None
"""
import gc
import numpy as np

from mgverif import ops_table as OT

FLOATS = ("float16", "float32", "float64")


def enc_arr(a):
    a = np.asarray(a)
    return ["a", a.dtype.name, list(a.shape), a.ravel(order="C").tolist()]


def enc_index(ix):
    """Encode a python index object."""
    if isinstance(ix, tuple):
        return ["t", [enc_index(i) for i in ix]]
    if isinstance(ix, slice):
        return ["sl", ix.start, ix.stop, ix.step]
    if ix is Ellipsis:
        return ["e"]
    if ix is None:
        return None
    if isinstance(ix, np.ndarray):
        return enc_arr(ix)
    if isinstance(ix, list):
        return ["l", [enc_index(i) for i in ix]]
    if isinstance(ix, (np.integer,)):
        return ["s", ix.dtype.name, int(ix)]
    if isinstance(ix, (bool, np.bool_)):
        return bool(ix)
    return int(ix)


class Interp:
    def __init__(self, backend, fdtype=None, use_npf=False):
        assert backend in ("mg", "np")
        self.backend = backend
        self.use_npf = use_npf   # np backend: call the NumPy namesake itself (forward parity) instead of the reference closed form
        self.fdtype = np.dtype(fdtype) if fdtype is not None else None  # override for float leaves/literals (np only)
        self.env = {}
        self.raised = {}     # stmt index -> exception repr
        self.bw = {}         # stmt index -> (L value copy, seed) for np backend
        self.leaf_arrays = {}  # name -> the caller-owned ndarray a leaf was built from (mg backend)
        self.literals = []   # caller-owned literal arrays handed to MyGrad (for immutability monitors)
        if backend == "mg":
            import mygrad as mg
            self.mg = mg

    # -------------------------------------------------------------------------------- decode
    def _fcast(self, a):
        if self.fdtype is not None and a.dtype.kind == "f":
            return a.astype(self.fdtype)
        return a

    def dec(self, v):
        if isinstance(v, list):
            tag = v[0] if v else None
            if tag == "r":
                return self.env[v[1]]
            if tag == "g":   # the .grad array of a named tensor (mg backend); a same-shaped array of ones on the NumPy side
                t = self.env[v[1]]
                return t.grad if self.backend == "mg" else np.ones(np.shape(t))
            if tag == "a":
                a = np.array(v[3], dtype=v[1]).reshape(v[2])
                a = self._fcast(a)
                self.literals.append(a)
                return a
            if tag == "s":
                dt = np.dtype(v[1])
                if self.fdtype is not None and dt.kind == "f":
                    dt = self.fdtype
                return dt.type(v[2])
            if tag == "t":
                return tuple(self.dec(x) for x in v[1])
            if tag == "l":
                return [self.dec(x) for x in v[1]]
            if tag == "sl":
                return slice(v[1], v[2], v[3])
            if tag == "e":
                return Ellipsis
            if tag == "dt":
                dt = np.dtype(v[1])
                if self.fdtype is not None and dt.kind == "f":
                    dt = self.fdtype
                return dt
            raise ValueError(f"bad value {v!r}")
        return v

    # ---------------------------------------------------------------------------------- leaves
    def make_array(self, st):
        """Build the ndarray of a leaf with the requested memory layout."""
        a = np.array(st["data"], dtype=st["dtype"]).reshape(st["shape"])
        a = self._fcast(a)
        lay = st.get("layout", "C")
        if lay == "C" or a.ndim == 0:
            out = a
        elif lay == "F":
            out = np.asfortranarray(a)
        elif lay == "strided":
            big = np.zeros(tuple(2 * n + 1 for n in a.shape), dtype=a.dtype)
            sl = tuple(slice(1, 1 + 2 * n, 2) for n in a.shape)
            big[sl] = a
            out = big[sl]
        elif lay == "neg":
            big = a[tuple(slice(None, None, -1) for _ in a.shape)].copy()
            out = big[tuple(slice(None, None, -1) for _ in a.shape)]
        elif lay == "T":
            out = a.T.copy().T
        else:
            raise ValueError(lay)
        return out

    def leaf(self, st):
        kind = st.get("kind", "tensor")
        if kind == "pyscalar":
            return st["data"]
        if kind == "npscalar":
            dt = np.dtype(st["dtype"])
            if self.fdtype is not None and dt.kind == "f":
                dt = self.fdtype
            return dt.type(st["data"])
        if kind == "list":
            return np.array(st["data"], dtype=st["dtype"]).reshape(st["shape"]).tolist() if self.backend == "mg" or self.fdtype is None \
                else self._fcast(np.array(st["data"], dtype=st["dtype"]).reshape(st["shape"]))
        arr = self.make_array(st)
        if st.get("readonly"):
            arr.flags.writeable = False
        if st.get("compact"):
            arr = np.array(arr)   # same compact copy that tensor() would have made
        if kind == "array" or self.backend == "np":
            if self.backend == "np" and kind == "tensor" and not st.get("nocopy"):
                arr = np.array(arr)  # tensor() copies (order K)
            return arr
        self.leaf_arrays[st["out"]] = arr
        kw = {}
        if st.get("constant") is not None:
            kw["constant"] = st["constant"]
        if st.get("nocopy"):
            return self.mg.Tensor(arr, copy=False, **kw)
        return self.mg.tensor(arr, **kw)

    # ------------------------------------------------------------------------------------ calls
    def call(self, st):
        spec = OT.SPECS[st["fn"]]
        args = [self.dec(a) for a in st.get("a", [])]
        kw = {k: self.dec(v) for k, v in st.get("kw", {}).items()}
        if self.backend == "np":
            kw.pop("constant", None)
            if self.fdtype is not None and kw.get("dtype") is not None and np.dtype(kw["dtype"]).kind == "f":
                kw["dtype"] = self.fdtype
            if self.use_npf:
                sp = st.get("sp", "mg")
                if sp == "meth" and spec.meth is not None and hasattr(args[0], spec.meth):
                    return getattr(args[0], spec.meth)(*args[1:], **kw)
                if sp == "op" and spec.opr is not None:
                    return OT.apply_operator(spec.opr, *args)
                return (spec.npf or spec.ref)(*args, **kw)
            out = spec.ref(*args, **kw)
            return out
        sp = st.get("sp", "mg")
        if sp == "mg":
            return spec.mg(*args, **kw)
        if sp == "np":
            return spec.npf(*args, **kw)
        if sp == "meth":
            return getattr(args[0], spec.meth)(*args[1:], **kw)
        if sp == "op":
            return OT.apply_operator(spec.opr, *args)
        raise ValueError(sp)

    # --------------------------------------------------------------------------------- statements
    def exec(self, i, st):
        k = st["k"]
        env = self.env
        if st.get("inject") and self.backend == "mg":
            from mgverif.hooks import REG
            REG.fault = {"mode": st["inject"], "countdown": int(st.get("inject_at", 0)), "only": st.get("inject_only")}
            try:
                return self._exec(i, st)
            finally:
                REG.fault = None
        if st.get("guard_off") and self.backend == "mg":
            with self.mg.mem_guard_off:
                return self._exec(i, st)
        return self._exec(i, st)

    def _exec(self, i, st):
        k = st["k"]
        env = self.env
        if k == "leaf":
            env[st["out"]] = self.leaf(st)
        elif k == "call":
            out = self.call(st)
            if self.backend == "np":
                out = np.asarray(out)
            env[st["out"]] = out
        elif k == "setitem":
            tgt = env[st["tgt"]]
            ix = self.dec(st["index"])
            val = self.dec(st["value"])
            tgt[ix] = val
        elif k == "aug":
            tgt = env[st["tgt"]]
            val = self.dec(st["value"])
            r = OT.apply_augmented(st["op"], tgt, val)
            if self.backend == "mg" and r is not tgt:
                raise AssertionError("augmented assignment returned a different object")
        elif k == "uout":
            spec = OT.SPECS[st["fn"]]
            args = [self.dec(a) for a in st["a"]]
            kw = {kk: self.dec(v) for kk, v in st.get("kw", {}).items()}
            tgt = env[st["tgt"]]
            if self.backend == "np":
                kw.pop("constant", None)
                if self.fdtype is not None and kw.get("dtype") is not None:
                    kw.pop("dtype")
                spec.ref(*args, out=tgt, **kw)
            else:
                f = spec.npf if st.get("sp") == "np" else spec.mg
                r = f(*args, out=tgt, **kw)
                if r is not tgt:
                    raise AssertionError("out= did not return the target tensor itself")
        elif k == "setshape":
            env[st["tgt"]].shape = self.dec(st["shape"])
        elif k == "backward":
            tgt = env[st["tgt"]]
            seed = self.dec(st.get("seed"))
            if self.backend == "mg":
                if st.get("inject_bw"):
                    from mgverif.hooks import REG
                    REG.bw_fault = dict(st["inject_bw"])
                try:
                    if seed is None:
                        tgt.backward()
                    else:
                        tgt.backward(seed)
                finally:
                    if st.get("inject_bw"):
                        REG.bw_fault = None
            else:
                self.bw[i] = (np.array(tgt), None if seed is None else np.asarray(seed))
        elif k == "clear":
            if self.backend == "mg":
                env[st["tgt"]].clear_graph()
        elif k == "nullgrad":
            if self.backend == "mg":
                env[st["tgt"]].null_grad()
        elif k == "del":
            env.pop(st["tgt"], None)
        elif k == "sever":
            # epoch boundary (after backward()/clear_graph()): MyGrad no longer keeps these tensors in a view family, and its in-place
            # updates act on a copy of the target's memory -> in the NumPy model each named survivor gets memory of its own
            if self.backend == "np":
                for n in st["names"]:
                    env[n] = np.copy(env[n], order="K")
        elif k == "gc":
            gc.collect()
        elif k == "rawwrite":
            # the user writes into a tensor's array behind the library's back (t.data[...] = ...).  NumPy program: no statement at all - the
            # memory guard must refuse the write (ValueError: read-only) whenever a live graph still reads that memory; when the write is
            # let through, the library's values move away from the NumPy program's and the checks downstream see it
            if self.backend == "mg":
                t = env[st["tgt"]]
                arr = t.data if isinstance(t, self.mg.Tensor) else t
                if st.get("via") == "root":
                    # ... through the buffer that owns the memory (a tensor made without a copy from a slice of the user's array)
                    while isinstance(arr, np.ndarray) and isinstance(arr.base, np.ndarray):
                        arr = arr.base
                if isinstance(arr, np.ndarray) and arr.dtype.kind == "f" and arr.size:
                    new = arr * 1.5 + 0.25
                    try:
                        arr[...] = new
                        self.rawwrites_ok = getattr(self, "rawwrites_ok", []) + [i]
                    except ValueError:
                        pass
        elif k == "alias":
            env[st["out"]] = env[st["src"]]
        elif k == "constof":
            # a CONSTANT operand that shares its memory with the (non-constant) tensor `src`
            src = env[st["src"]]
            if self.backend == "np":
                env[st["out"]] = src
            elif st["how"] == "astensor":
                env[st["out"]] = self.mg.astensor(src, constant=True)
            elif st["how"] == "Tensor":
                env[st["out"]] = self.mg.Tensor(src, copy=False, constant=True)
            else:
                env[st["out"]] = src.data
        else:
            raise ValueError(f"unknown statement kind {k}")

    def run(self, prog, upto=None, on_stmt=None, inject=None, catch=True):
        """Execute statements [0, upto). `inject`: {stmt_index: [(name, delta_array)]} adds delta into
        env[name] in place right after that statement (np backend). `on_stmt(i, st, exc)` is called after each.
        Statements flagged expect_raise (or any, when catch) that raise are recorded in self.raised and skipped."""
        n = len(prog) if upto is None else upto
        for i in range(n):
            st = prog[i]
            exc = None
            try:
                self.exec(i, st)
            except Exception as e:  # noqa
                if not catch:
                    raise
                # like a user's `except ...: pass`: the exception object is kept for classification, but NOT its traceback (which would keep the
                # failed call's frames - its operation object, placeholders and locks - alive for the rest of the history)
                c_ = e
                while c_ is not None:
                    c_.__traceback__ = None
                    c_ = c_.__context__ or c_.__cause__ if (c_.__context__ is not c_) else None
                exc = e
                self.raised[i] = e
                del e, c_
            if inject and i in inject:
                for name, delta in inject[i]:
                    tgt = self.env[name]
                    tgt += delta
            if on_stmt is not None:
                on_stmt(i, st, exc)
        return self.env

"""Incremental program builder: appends DSL statements while executing the float64 NumPy shadow,
so that shapes and values are known at generation time (domain checks, index generation)."""
import math
import numpy as np

from mgverif import ops_table as OT
from mgverif.prog import Interp, enc_arr, enc_index

R = lambda n: ["r", n]

ADAPT = {  # unary ops with an interval domain: squash operand into (lo, hi) through tanh
    "sqrt": (0.4, 3.0), "log": (0.4, 3.0), "log2": (0.4, 3.0), "log10": (0.4, 3.0), "log1p": (-0.5, 3.0),
    "arcsin": (-0.75, 0.75), "arccos": (-0.75, 0.75), "arctanh": (-0.75, 0.75), "arccosh": (1.3, 3.0),
    "exp": (-2.0, 2.0), "exp2": (-2.0, 2.0), "expm1": (-2.0, 2.0), "sinh": (-2.0, 2.0), "cosh": (-2.0, 2.0),
    "reciprocal": (0.5, 2.5), "tan": (-1.0, 1.0), "cot": (0.4, 1.4), "csc": (0.4, 2.6), "sec": (-1.0, 1.0),
    "arccsc": (1.4, 3.0), "arcsec": (1.4, 3.0), "arccoth": (1.4, 3.0), "coth": (0.4, 2.5), "csch": (0.4, 2.5),
    "arccot": (0.4, 3.0), "arccsch": (0.4, 3.0), "square": (-3, 3), "prod": (0.5, 1.6), "cumprod": (0.5, 1.6),
    "cbrt": (0.3, 3.0), "sech": (-2, 2), "sigmoid": (-3, 3), "tanh": (-2, 2), "nnet_tanh": (-2, 2),
}


def rand_values(rng, shape, lo=0.3, hi=2.0, signed=True, dtype="float64"):
    n = int(np.prod(shape, dtype=int))
    vals = []
    for _ in range(n):
        v = rng.uniform(lo, hi)
        if signed and rng.random() < 0.5:
            v = -v
        vals.append(v)
    a = np.array(vals, dtype=dtype).reshape(shape)
    return a


def rand_shape(rng, max_ndim=3, max_side=3, min_side=1):
    nd = rng.choice([0, 1, 1, 2, 2, 2, 3][: max_ndim + 4]) if max_ndim >= 3 else rng.randint(0, max_ndim)
    nd = min(nd, max_ndim)
    return tuple(rng.randint(min_side, max_side) for _ in range(nd))


def bcast_variants(rng, shape):
    """A shape that broadcasts with `shape` (drop leading axes, set some axes to 1)."""
    s = list(shape)
    k = rng.randint(0, len(s))
    s = s[k:]
    s = [1 if rng.random() < 0.3 else n for n in s]
    return tuple(s)


# ----------------------------------------------------------------------------------------- indices
def rand_basic_index(rng, shape, allow_newaxis=True, allow_ellipsis=True, allow_neg_step=True, scalar_ok=True):
    """Basic (view-producing) index for an array of `shape`; returns python index object."""
    nd = len(shape)
    if nd == 0:
        c = rng.random()
        if c < 0.4:
            return ()
        if c < 0.7:
            return Ellipsis
        return (None,) if allow_newaxis else ()
    items = []
    used_ellipsis = False
    ax = 0
    while ax < nd:
        n = shape[ax]
        c = rng.random()
        if allow_ellipsis and not used_ellipsis and c < 0.12:
            used_ellipsis = True
            skip = rng.randint(0, nd - ax)
            items.append(Ellipsis)
            ax += skip
            continue
        if allow_newaxis and c < 0.2:
            items.append(None)
            continue
        if c < 0.45 and n > 0 and (scalar_ok or nd > 1):
            items.append(rng.randint(-n, n - 1))
        else:
            if n == 0:
                items.append(slice(None))
            else:
                a = rng.randint(0, n - 1)
                b = rng.randint(a + 1, n)
                st = rng.choice([None, None, 1, 2]) if n > 1 else None
                if allow_neg_step and rng.random() < 0.2:
                    items.append(slice(b - 1, (a - 1) if a > 0 else None, -(st or 1)))
                else:
                    r = rng.random()
                    if r < 0.2:
                        items.append(slice(None))
                    elif r < 0.3:
                        items.append(slice(a - n, None, st))
                    else:
                        items.append(slice(a, b, st))
        ax += 1
        if rng.random() < 0.25 and not used_ellipsis:
            break  # trailing axes implicit
    if len(items) == 1 and rng.random() < 0.5:
        return items[0]
    return tuple(items)


def rand_adv_index(rng, shape, allow_repeats=True):
    """Advanced index (integer arrays / boolean mask / mixed). nd >= 1 and all sides >= 1.
    Integer index arrays take a random integer dtype (NumPy accepts any) in a third of the cases."""
    ix = _rand_adv_index(rng, shape, allow_repeats)
    if rng.random() < 0.35:
        dt = rng.choice(["int32", "int16", "intp", "int8", "uint8"])
        def conv(a):
            if isinstance(a, np.ndarray) and a.dtype.kind == "i":
                if dt.startswith("u") and (a < 0).any():
                    return a
                return a.astype(dt)
            return a
        ix = tuple(conv(a) for a in ix) if isinstance(ix, tuple) else conv(ix)
    return ix


def _rand_adv_index(rng, shape, allow_repeats=True):
    nd = len(shape)
    c = rng.random()
    if c < 0.3:  # boolean mask over leading k axes
        k = rng.randint(1, nd)
        m = np.array([rng.random() < 0.6 for _ in range(int(np.prod(shape[:k])))], dtype=bool).reshape(shape[:k])
        if not m.any():
            m.flat[0] = True
        return m if (k == nd or rng.random() < 0.5) else (m,) + (slice(None),) * (nd - k)
    if c < 0.65:  # one integer array on one axis (possibly list), rest slices/ints
        axis = rng.randrange(nd)
        n = shape[axis]
        k = rng.randint(1, max(1, n + 1))
        if allow_repeats:
            ia = [rng.randint(-n, n - 1) for _ in range(k)]
        else:
            ia = rng.sample(range(n), min(k, n))
        ia = np.array(ia) if rng.random() < 0.7 else list(ia)
        items = []
        for a in range(nd):
            if a == axis:
                items.append(ia)
            else:
                r = rng.random()
                items.append(slice(None) if r < 0.6 else (rng.randint(0, shape[a] - 1) if r < 0.8 else slice(0, rng.randint(1, shape[a]))))
        return tuple(items) if nd > 1 or rng.random() < 0.5 else items[0]
    # several broadcasting integer arrays
    k = rng.randint(2, nd) if nd >= 2 else 1
    ishape = rand_shape(rng, 2, 3, 1) or (2,)
    items = []
    for a in range(k):
        n = shape[a]
        if allow_repeats:
            arr = np.array([rng.randint(-n, n - 1) for _ in range(int(np.prod(ishape)))]).reshape(ishape)
        else:
            arr = np.array([rng.randint(0, n - 1) for _ in range(int(np.prod(ishape)))]).reshape(ishape)
        items.append(arr)
    if not allow_repeats:
        # make index tuples unique: fall back to single coordinates
        flat = set()
        cols = [x.ravel() for x in items]
        for j in range(len(cols[0])):
            flat.add(tuple(int(c[j]) for c in cols))
        flat = sorted(flat)
        items = [np.array([f[a] for f in flat]) for a in range(k)]
    for a in range(k, nd):
        if rng.random() < 0.5:
            items.append(slice(None))
    return tuple(items)


# ----------------------------------------------------------------------------------------- builder
class Builder:
    def __init__(self, rng, dtype="float64", max_size=48):
        self.rng = rng
        self.prog = []
        self.it = Interp("np")
        self.meta = {}     # name -> dict(tensor=bool, nonconst=bool, deps=set(leaf names), view_of=owner or None)
        self.counter = 0
        self.dtype = dtype
        self.max_size = max_size
        self.allow_empty = False
        self.npint_args = False
        self.allow_nonfinite = False
        self.special_scalars = False   # Python-scalar operands also take the values operator fast paths test for (1, 2, -1, True, ...)

    # -- helpers
    def name(self, p="v"):
        self.counter += 1
        return f"{p}{self.counter}"

    def val(self, n):
        return self.it.env[n]

    def tensors(self, pred=None):
        return [n for n, m in self.meta.items() if m["tensor"] and n in self.it.env and (pred is None or pred(n))]

    def ok_value(self, v):
        if isinstance(v, np.ndarray) and v.dtype.kind == "f":
            if v.size > self.max_size or (v.size == 0 and not self.allow_empty):
                return False
            if v.size and not self.allow_nonfinite and not (np.all(np.isfinite(v)) and np.all(np.abs(v) < 1e4)):
                return False
        return True

    def emit(self, st, check=True):
        """Execute on the shadow; append if it runs (and yields sane values). Returns True/False."""
        i = len(self.prog)
        try:
            with np.errstate(all="ignore"):
                self.it.exec(i, st)
        except Exception:
            return False
        if check and "out" in st and not self.ok_value(self.it.env[st["out"]]):
            self.it.env.pop(st["out"], None)
            return False
        self.prog.append(st)
        return True

    def leaf(self, shape, kind="tensor", constant=None, dtype=None, layout=None, lo=0.3, hi=2.0, signed=True, values=None, prefix=None):
        rng = self.rng
        dtype = dtype or self.dtype
        if values is None:
            if np.dtype(dtype).kind == "f":
                values = rand_values(rng, shape, lo, hi, signed, "float64").astype(dtype)
            elif np.dtype(dtype).kind == "b":
                values = np.array([rng.random() < 0.5 for _ in range(int(np.prod(shape, dtype=int)))], dtype=bool).reshape(shape)
            else:
                values = np.array([rng.randint(-3, 3) for _ in range(int(np.prod(shape, dtype=int)))], dtype=dtype).reshape(shape)
        n = self.name(prefix or ("x" if kind == "tensor" else "a"))
        st = {"k": "leaf", "out": n, "kind": kind, "dtype": np.dtype(dtype).name, "shape": list(shape),
              "data": np.asarray(values).ravel().tolist(), "constant": constant,
              "layout": layout or rng.choice(["C", "C", "C", "F", "strided", "neg", "T"])}
        assert self.emit(st, check=False)
        isf = np.dtype(dtype).kind == "f"
        nonconst = kind == "tensor" and isf and constant is not True
        self.meta[n] = {"tensor": kind == "tensor", "nonconst": nonconst, "deps": {n} if nonconst else set(), "leaf": True}
        return n

    def record(self, out, args, tensor=True, force_const=None):
        deps = set()
        nonconst = False
        for a in args:
            m = self.meta.get(a)
            if m and m["nonconst"]:
                nonconst = True
                deps |= m["deps"]
        if force_const is True:
            nonconst, deps = False, set()
        self.meta[out] = {"tensor": tensor, "nonconst": nonconst, "deps": deps, "leaf": False}

    def call(self, fn, args, kw=None, sp=None, out=None, refs=None, prefix="v"):
        """Append a call statement. `args` are encoded values. `refs`: names it consumes (for meta)."""
        out = out or self.name(prefix)
        st = {"k": "call", "out": out, "fn": fn, "a": args}
        if kw:
            st["kw"] = kw
        if sp:
            st["sp"] = sp
        if not self.emit(st):
            return None
        if refs is None:
            refs = collect_refs(args) + collect_refs(list((kw or {}).values()))
        self.record(out, refs)
        return out

    def spelling(self, fn, argnames_first_is_tensor, any_tensor):
        spec = OT.SPECS[fn]
        opts = ["mg", "mg"]
        if spec.npf is not None and any_tensor:
            opts.append("np")
        if spec.meth is not None and argnames_first_is_tensor:
            opts.append("meth")
        if spec.opr is not None and any_tensor:
            opts += ["op", "op"]
        return self.rng.choice(opts)

    def adapt(self, x, lo, hi):
        """Squash tensor x into (lo, hi): mid + half*tanh(x) as three real statements."""
        half, mid = (hi - lo) / 2.0, (hi + lo) / 2.0
        t = self.call("tanh", [R(x)], sp=self.rng.choice(["mg", "np"]))
        if t is None:
            return None
        u = self.call("multiply", [R(t), half] if self.rng.random() < 0.5 else [half, R(t)], sp=self.rng.choice(["mg", "op"]))
        if u is None:
            return None
        return self.call("add", [R(u), mid] if self.rng.random() < 0.5 else [mid, R(u)], sp=self.rng.choice(["mg", "op"]))


def collect_refs(vals):
    out = []
    for v in vals:
        if isinstance(v, list) and v:
            if v[0] == "r":
                out.append(v[1])
            elif v[0] in ("t", "l"):
                out += collect_refs(v[1])
    return out


# ----------------------------------------------------------------------------------------- node generators
def pick(b, pred=None, prefer_recent=True):
    names = b.tensors(pred)
    if not names:
        return None
    if prefer_recent and b.rng.random() < 0.5:
        return names[-b.rng.randint(1, min(3, len(names)))]
    return b.rng.choice(names)


def compatible(b, shape, pred=None):
    out = []
    for n in b.tensors(pred):
        try:
            s = np.broadcast_shapes(shape, np.shape(b.val(n)))
            if int(np.prod(s, dtype=int)) <= b.max_size:
                out.append(n)
        except ValueError:
            pass
    return out


def other_operand(b, x, allow_const=True):
    """Encoded second operand for a binary op with x: another tensor, a fresh leaf, array literal or scalar."""
    rng = b.rng
    shape = np.shape(b.val(x))
    c = rng.random()
    if c < 0.45:
        cands = compatible(b, shape)
        if cands:
            n = rng.choice(cands + [x])  # x itself: f(x, x)
            return R(n), [n]
    if c < 0.6:
        n = b.leaf(bcast_variants(rng, shape) if rng.random() < 0.7 else shape, constant=rng.choice([None, None, True]))
        return R(n), [n]
    if not allow_const or c < 0.7:
        n = b.leaf(bcast_variants(rng, shape), kind="array")
        return R(n), [n]
    if c < 0.85:
        if b.special_scalars and rng.random() < 0.35:
            return rng.choice([1, 1, 2, -1, 1.0, 2.0, 0.5, True, 3, -2.0]), []
        return round(rng.uniform(0.4, 2.0) * rng.choice([1, -1]), 3), []
    if c < 0.93:
        return ["s", "float64", round(rng.uniform(0.4, 2.0), 3)], []
    return enc_arr(rand_values(rng, bcast_variants(rng, shape))), []


def g_unary(b, fn=None):
    rng = b.rng
    fn = fn or rng.choice(OT.UNARY_SMOOTH)
    spec = OT.SPECS[fn]
    x = pick(b)
    if x is None:
        return None
    if not spec.in_domain(b.val(x)):
        if fn in ADAPT and rng.random() < 0.8:
            x = b.adapt(x, *ADAPT[fn])
            if x is None or not spec.in_domain(b.val(x)):
                return None
        else:
            return None
    sp = b.spelling(fn, True, True)
    if fn == "nnet_tanh":
        sp = "mg"
    return b.call(fn, [R(x)], sp=sp)


def g_param_act(b, fn=None):
    rng = b.rng
    fn = fn or rng.choice(["elu", "leaky_relu", "hard_tanh", "glu", "softmax", "logsoftmax"])
    spec = OT.SPECS[fn]
    x = pick(b)
    if x is None:
        return None
    xv = b.val(x)
    if fn == "elu":
        a, kw = [R(x), rng.choice([0.5, 1.0, 1.5])], {}
    elif fn == "leaky_relu":
        a, kw = [R(x), rng.choice([0.1, 0.3])], {}
    elif fn == "hard_tanh":
        a, kw = [R(x)], ({"lower_bound": -rng.choice([0.5, 1.0]), "upper_bound": rng.choice([0.7, 1.0])} if rng.random() < 0.7 else {})
    elif fn == "glu":
        axes = [i for i, n in enumerate(xv.shape) if n >= 2 and n % 2 == 0]
        if not axes:
            return None
        ax = rng.choice(axes)
        a, kw = [R(x)], {"axis": ax if rng.random() < 0.5 else ax - xv.ndim}
    else:
        if xv.ndim == 0:
            return None
        ax = rng.randrange(xv.ndim)
        r = rng.random()
        kw = {} if r < 0.2 else ({"axis": ax if rng.random() < 0.5 else ax - xv.ndim} if r < 0.8 else {"axis": None})
        a = [R(x)]
    dk = {k: v for k, v in kw.items()}
    if not spec.in_domain(xv, *[v for v in a[1:]], **dk):
        return None
    return b.call(fn, a, kw=kw, sp="mg")


def g_binary(b, fn=None):
    rng = b.rng
    fn = fn or rng.choice(OT.BINARY + ["add", "multiply", "subtract", "true_divide"])
    spec = OT.SPECS[fn]
    x = pick(b)
    if x is None:
        return None
    if fn == "power":
        if not OT.rng_(0.3, 3)(b.val(x)):
            x = b.adapt(x, 0.5, 2.5)
            if x is None:
                return None
        r = rng.random()
        if b.special_scalars and r < 0.12:
            # a 0-d ARRAY exponent (strongly typed, unlike a Python scalar) at and next to the values the operator's fast paths test for
            y, yr = enc_arr(np.array(rng.choice([1, 2, 2, 3, 0.5]), dtype=rng.choice(["float64", "float32", "float32", "int64"]))), []
            force_sp = rng.choice(["op", "op", "mg", "np"])
        elif r < 0.4:
            y, yr = rng.choice([1, 2, 3, -1, 0.5, 2.5, -1.5]), []   # incl. the **1 / **2 special routes
        elif r < 0.6:
            # a (trainable) TENSOR exponent whose value happens to be exactly 1 or 2: must not take the scalar special routes
            n = b.leaf((), values=np.array(rng.choice([1.0, 2.0, 2.0, 3.0])), constant=rng.choice([None, None, True]))
            y, yr = R(n), [n]
            force_sp = rng.choice(["op", "op", "mg", "np"])
        else:
            y, yr = other_operand(b, x)
        args, refs = [R(x), y], [x] + yr
    else:
        y, yr = other_operand(b, x)
        if rng.random() < 0.5:
            args, refs = [R(x), y], [x] + yr
        else:
            args, refs = [y, R(x)], yr + [x]
    vals = [b.it.dec(a) for a in args]
    if not spec.in_domain(*vals):
        return None
    anyt = True
    first_t = isinstance(args[0], list) and args[0][0] == "r" and b.meta[args[0][1]]["tensor"]
    sp = b.spelling(fn, first_t, anyt)
    if fn == "power" and "force_sp" in locals():
        sp = force_sp
    if sp == "op" and not any(isinstance(a, list) and a[0] == "r" and b.meta[a[1]]["tensor"] for a in args):
        sp = "mg"
    if sp == "op" and isinstance(args[0], list) and args[0][0] == "s":
        sp = "mg"  # numpy scalar on the left of an operator: numpy decides the dispatch; keep to documented spellings
    return b.call(fn, args, sp=sp, refs=refs)


def g_matmul(b):
    rng = b.rng
    x = pick(b, lambda n: np.ndim(b.val(n)) >= 1)
    if x is None:
        return None
    xs = np.shape(b.val(x))
    k = xs[-1]
    c = rng.random()
    if c < 0.3:
        ys = (k,)
    elif c < 0.8 or len(xs) < 2:
        ys = (k, rng.randint(1, 3))
    else:
        ys = tuple(rng.choice([n, 1]) for n in xs[:-2]) + (k, rng.randint(1, 3))
    cands = [n for n in b.tensors() if np.shape(b.val(n)) == ys]
    if cands and rng.random() < 0.5:
        y = rng.choice(cands)
    else:
        y = b.leaf(ys, kind=rng.choice(["tensor", "tensor", "array"]), constant=rng.choice([None, None, True]))
    if rng.random() < 0.3 and len(ys) == 2 and len(xs) == 2:
        # reversed order: (y^T-like) build x2 with shape (m, xs[0])
        pass
    sp = b.spelling("matmul", b.meta[x]["tensor"], True)
    return b.call("matmul", [R(x), R(y)], sp=sp)


def g_seq(b, fn=None):
    rng = b.rng
    fn = fn or rng.choice(["add_sequence", "multiply_sequence"])
    x = pick(b)
    if x is None:
        return None
    args, refs = [R(x)], [x]
    for _ in range(rng.randint(1, 3)):
        y, yr = other_operand(b, x)
        args.append(y)
        refs += yr
    rng.shuffle(args)
    return b.call(fn, args, sp="mg")


def g_multi_matmul(b):
    rng = b.rng
    x = pick(b, lambda n: np.ndim(b.val(n)) == 2)
    if x is None:
        return None
    dims = [np.shape(b.val(x))[1]] + [rng.randint(1, 3) for _ in range(rng.randint(1, 3))]
    names = [x]
    if rng.random() < 0.3:
        # a (constant or trainable) first operand in front of the picked one: a 1-D vector or a matrix, tensor or plain array
        k0 = np.shape(b.val(x))[0]
        names.insert(0, b.leaf((k0,) if rng.random() < 0.5 else (rng.randint(1, 3), k0), kind=rng.choice(["tensor", "tensor", "array"]),
                               **({"constant": rng.choice([True, True, None])} if True else {})))
    for i in range(len(dims) - 1):
        last = i == len(dims) - 2
        shp = (dims[i],) if (last and rng.random() < 0.4) else (dims[i], dims[i + 1])      # the last operand sometimes a 1-D vector
        kind = rng.choice(["tensor", "tensor", "array"])
        names.append(b.leaf(shp, kind=kind, **({"constant": rng.choice([None, None, True])} if kind == "tensor" else {})))
    return b.call("multi_matmul", [["l", [R(n) for n in names]]], sp="mg")


def rand_axis(rng, nd, allow_tuple=True, allow_empty=True):
    if nd == 0:
        return rng.choice([None, ()]) if allow_empty and allow_tuple else None
    c = rng.random()
    if c < 0.3:
        return None
    if c < 0.7 or not allow_tuple:
        a = rng.randrange(nd)
        return a if rng.random() < 0.5 else a - nd
    if c < 0.75 and allow_empty:
        return ()
    k = rng.randint(1, nd)
    axes = rng.sample(range(nd), k)
    return tuple(a if rng.random() < 0.5 else a - nd for a in axes)


def enc_axis(ax, b=None):
    if isinstance(ax, tuple):
        return ["t", list(ax)]
    if b is not None and getattr(b, "npint_args", False) and isinstance(ax, int) and b.rng.random() < 0.25:
        return ["s", "int64", ax]
    return ax


def g_reduce(b, fn=None):
    rng = b.rng
    fn = fn or rng.choice(["sum", "mean", "prod", "max", "min", "var", "std", "amax", "amin"])
    spec = OT.SPECS[fn]
    x = pick(b)
    if x is None:
        return None
    xv = b.val(x)
    if xv.size == 0:
        return None
    ax = rand_axis(rng, xv.ndim)
    if xv.ndim >= 3 and rng.random() < 0.5:
        # several-but-not-all axes of a >=3-d operand (every ordered pair, so that non-self-inverse permutations occur)
        k = rng.randint(2, xv.ndim - 1)
        ax = tuple(a if rng.random() < 0.6 else a - xv.ndim for a in rng.sample(range(xv.ndim), k))
    kw = {}
    if ax is not None or rng.random() < 0.2:
        kw["axis"] = enc_axis(ax, b)
    if rng.random() < 0.4:
        kw["keepdims"] = rng.random() < 0.7
    if fn in ("var", "std") and rng.random() < 0.5:
        kw["ddof"] = rng.choice([0, 1])
    dk = {"axis": ax}
    if "ddof" in kw:
        dk["ddof"] = kw["ddof"]
    if not spec.in_domain(xv, **dk):
        if fn in ADAPT:
            x = b.adapt(x, *ADAPT[fn])
            if x is None or not spec.in_domain(b.val(x), **dk):
                return None
        else:
            return None
    sp = b.spelling(fn, True, True)
    return b.call(fn, [R(x)], kw=kw, sp=sp)


def g_cum(b, fn=None):
    rng = b.rng
    fn = fn or rng.choice(["cumsum", "cumprod"])
    x = pick(b)
    if x is None:
        return None
    xv = b.val(x)
    if fn == "cumprod" and not OT.SPECS[fn].in_domain(xv):
        x = b.adapt(x, *ADAPT["cumprod"])
        if x is None:
            return None
        xv = b.val(x)
    kw = {}
    if xv.ndim and rng.random() < 0.8:
        a = rng.randrange(xv.ndim)
        kw["axis"] = a if rng.random() < 0.5 else a - xv.ndim
    elif rng.random() < 0.5:
        kw["axis"] = None
    return b.call(fn, [R(x)], kw=kw, sp=b.spelling(fn, True, True))


def g_norm(b):
    rng = b.rng
    x = pick(b, lambda n: np.ndim(b.val(n)) >= 1)
    if x is None:
        return None
    xv = b.val(x)
    ordv = rng.choice([None, None, 1, 2, 3, 0.5, "inf", "-inf"])
    o = {"inf": np.inf, "-inf": -np.inf}.get(ordv, ordv)
    kw = {}
    if xv.ndim == 1 and rng.random() < 0.5:
        ax = None
    else:
        a = rng.randrange(xv.ndim)
        ax = a if rng.random() < 0.5 else a - xv.ndim
        kw["axis"] = ax
    if o is not None:
        kw["ord"] = o if not isinstance(ordv, str) else ["s", "float64", float(o)]
    if rng.random() < 0.4:
        kw["keepdims"] = True
    if xv.ndim > 1 and ax is None:
        return None
    if not OT.SPECS["norm"].in_domain(xv, ord=o, axis=ax):
        return None
    return b.call("norm", [R(x)], kw=kw, sp=rng.choice(["mg", "np"]))


def g_einsum(b):
    rng = b.rng
    x = pick(b, lambda n: 1 <= np.ndim(b.val(n)) <= 3)
    if x is None:
        return None
    if rng.random() < 0.2:
        # ellipsis forms; the second operand's leading (ellipsis) dimensions broadcast against the first one's
        xs = np.shape(b.val(x))
        lead, last = tuple(xs[:-1]), xs[-1]
        ylead = bcast_variants(rng, lead) if (lead and rng.random() < 0.7) else lead
        if ylead and rng.random() < 0.3:
            ylead = ylead[1:]
        forms = ["...i,...i->...", "...i,...i->...i", "...i,i->...", "...,...->..."]
        if len(xs) >= 2:
            forms += ["...ij,...j->...i", "...ij,...j->..."]
        form = rng.choice(forms)
        if form == "...i,i->...":
            yshape = (last,)
        elif form == "...,...->...":
            yshape = bcast_variants(rng, xs)
        elif form.startswith("...ij"):
            yshape = tuple(bcast_variants(rng, xs[:-2]) if xs[:-2] else ()) + (last,)
        else:
            yshape = tuple(ylead) + (last,)
        y = b.leaf(yshape, constant=rng.choice([None, None, True]))
        args = [form, R(x), R(y)] if rng.random() < 0.5 or form.startswith("...ij") or form == "...i,i->..." else [form, R(y), R(x)]
        return b.call("einsum", args, sp=rng.choice(["mg", "np"]))
    ops = [x]
    if rng.random() < 0.6:
        if rng.random() < 0.3:
            ops.append(x)
        else:
            y = pick(b, lambda n: 1 <= np.ndim(b.val(n)) <= 3, prefer_recent=False)
            ops.append(y or x)
    letters = "ijklmnpq"
    size_of = {}
    subs = []
    li = 0
    for o in ops:
        s = ""
        for n in np.shape(b.val(o)):
            same = [c for c, m in size_of.items() if m == n]
            if same and rng.random() < 0.45:
                c = rng.choice(same)
            else:
                c = letters[li]
                li += 1
                size_of[c] = n
            s += c
        subs.append(s)
    allc = sorted(set("".join(subs)))
    k = rng.randint(0, len(allc))
    outc = rng.sample(allc, k)
    total = int(np.prod([size_of[c] for c in outc], dtype=int))
    if total > b.max_size:
        return None
    expr = ",".join(subs) + "->" + "".join(outc)
    if rng.random() < 0.15 and len(set(subs[0])) == len(subs[0]) and len(ops) == 1:
        expr = subs[0]  # implicit output
    kw = {"optimize": True} if rng.random() < 0.2 else {}
    if "->" in expr and rng.random() < 0.2:
        # the sublist form: einsum(op0, [0, 1], op1, [1, 2], [0, 2])
        num = {c: i for i, c in enumerate(allc)}
        args = []
        for o, sub in zip(ops, subs):
            args += [R(o), ["l", [num[c] for c in sub]]]
        args.append(["l", [num[c] for c in outc]])
        return b.call("einsum", args, kw=kw, sp=rng.choice(["mg", "np"]))
    return b.call("einsum", [expr] + [R(o) for o in ops], kw=kw, sp=rng.choice(["mg", "np"]))


def tensorize_index(b, enc, prob=0.25):
    """Replaces integer / boolean index ARRAYS of an encoded index by constant index TENSORS holding the same values (a tensor is a
    legitimate index object; with a plain array in its place nothing may change)."""
    rng = b.rng
    if isinstance(enc, list) and enc and enc[0] == "a" and enc[1] != "float64" and rng.random() < prob and int(np.prod(enc[2], dtype=int)) > 0:
        n = b.leaf(tuple(enc[2]), dtype=enc[1], values=np.array(enc[3], dtype=enc[1]).reshape(enc[2]), layout="C", prefix="i")
        b.meta[n]["tensor"] = False     # an index, not offered to the node generators as an operand
        return R(n)
    if isinstance(enc, list) and enc and enc[0] in ("t", "l") and enc[0] == "t":
        return ["t", [tensorize_index(b, e, prob) for e in enc[1]]]
    return enc


def g_getitem(b, adv_prob=0.4):
    rng = b.rng
    if rng.random() < 0.06:
        # a LONG integer index (>= 32 entries) without literally repeated values that still addresses elements twice through negative
        # aliases (wrap padding x[arange(-k, n)]), on a fresh 1-d leaf
        n, k = rng.randint(30, 42), rng.randint(2, 5)
        x = b.leaf((n,))
        idx = np.arange(-k, n)
        if rng.random() < 0.5:
            idx = idx[np.array(rng.sample(range(len(idx)), len(idx)))]
        return b.call("getitem", [R(x), tensorize_index(b, enc_index(idx.astype(rng.choice(["int64", "int32"]))))], sp="mg")
    x = pick(b)
    if x is None:
        return None
    xv = b.val(x)
    if xv.ndim >= 1 and min(xv.shape) >= 1 and rng.random() < adv_prob:
        ix = rand_adv_index(rng, xv.shape)
    else:
        ix = rand_basic_index(rng, xv.shape)
    try:
        r = xv[ix]
    except Exception:
        return None
    if np.size(r) == 0:
        return None
    return b.call("getitem", [R(x), tensorize_index(b, enc_index(ix))], sp="mg")


def g_where(b):
    rng = b.rng
    x = pick(b)
    if x is None:
        return None
    y, yr = other_operand(b, x)
    shape = np.broadcast_shapes(np.shape(b.val(x)), np.shape(b.it.dec(y)))
    cshape = bcast_variants(rng, shape) if rng.random() < 0.5 else shape
    cond = np.array([rng.random() < 0.5 for _ in range(int(np.prod(cshape, dtype=int)))], dtype=bool).reshape(cshape)
    c = rng.random()
    if c < 0.6:
        ec = enc_arr(cond)
    elif c < 0.75:      # NumPy takes any array-like as the condition and tests its truth value
        ec = enc_arr(cond.astype(rng.choice(["int64", "uint8", "int32"])) * rng.choice([1, 1, 2, 3]))
    elif c < 0.85:
        ec = enc_arr(cond.astype("float64") * rng.choice([1.0, 0.5, -2.0]))
    elif c < 0.95 or cond.ndim == 0:
        ec = ["l", (cond.astype(int) * rng.choice([1, 2])).tolist()] if cond.ndim == 1 else enc_arr(cond.astype("int64"))
    else:
        ec = bool(cond.ravel()[0]) if cond.size == 1 and rng.random() < 0.5 else enc_arr(cond)
    if rng.random() < 0.25 and isinstance(ec, list) and ec[:1] == ["a"]:
        # the condition as a (constant) tensor, e.g. a stored boolean / integer mask
        cn = b.leaf(tuple(ec[2]), dtype=ec[1], values=np.array(ec[3], dtype=ec[1]).reshape(ec[2]),
                    constant=True if np.dtype(ec[1]).kind == "f" else None, layout="C")
        b.meta[cn]["tensor"] = False   # a mask: not offered to the other node generators as an operand (bool/int operands change dtypes)
        ec = R(cn)
    args = [ec, R(x), y] if rng.random() < 0.5 else [ec, y, R(x)]
    return b.call("where", args, sp=rng.choice(["mg", "np"]))


def g_clip(b):
    rng = b.rng
    x = pick(b)
    if x is None:
        return None
    lo, hi = sorted([round(rng.uniform(-1.5, 0.2), 2), round(rng.uniform(0.3, 1.8), 2)])
    c = rng.random()
    if c < 0.2:
        lo = None
    elif c < 0.4:
        hi = None
    if not OT.SPECS["clip"].in_domain(b.val(x), lo, hi):
        return None
    return b.call("clip", [R(x), lo, hi], sp=b.spelling("clip", True, True))


def factorizations(n, rng, maxnd=3):
    nd = rng.randint(1, maxnd)
    dims = []
    rem = n
    for _ in range(nd - 1):
        divs = [d for d in range(1, rem + 1) if rem % d == 0]
        d = rng.choice(divs)
        dims.append(d)
        rem //= d
    dims.append(rem)
    rng.shuffle(dims)
    return dims


def g_shape(b, x=None, only_view=False, fn=None):
    """reshape / squeeze / ravel / flatten / expand_dims / broadcast_to / atleast / transpose-like."""
    rng = b.rng
    x = x or pick(b)
    if x is None:
        return None
    xv = b.val(x)
    nd = xv.ndim
    kinds = ["reshape", "squeeze", "ravel", "expand_dims", "broadcast_to", "atleast", "transpose", "T", "moveaxis", "swapaxes"]
    if not only_view:
        kinds += ["flatten", "roll"]
    fn = fn or rng.choice(kinds)
    first_t = b.meta[x]["tensor"]
    if fn == "reshape":
        dims = factorizations(xv.size, rng) if xv.size else [0]
        if rng.random() < 0.3 and xv.size:
            dims[rng.randrange(len(dims))] = -1
        c = rng.random()
        shp = ["t", dims] if c < 0.7 else (dims[0] if len(dims) == 1 else ["t", dims])
        if c > 0.9:
            shp = ["t", []] if xv.size == 1 else shp
        return b.call("reshape", [R(x), shp], sp=b.spelling("reshape", first_t, True))
    if fn == "squeeze":
        ones = [i for i, n in enumerate(xv.shape) if n == 1]
        kw = {}
        if ones and rng.random() < 0.6:
            k = rng.randint(1, len(ones))
            ax = rng.sample(ones, k)
            kw["axis"] = ax[0] if k == 1 and rng.random() < 0.6 else ["t", ax]
        return b.call("squeeze", [R(x)], kw=kw, sp=b.spelling("squeeze", first_t, True))
    if fn in ("ravel", "flatten", "T"):
        return b.call(fn, [R(x)], sp="mg" if fn != "ravel" else b.spelling("ravel", first_t, True))
    if fn == "expand_dims":
        ax = rng.randint(-nd - 1, nd)
        return b.call("expand_dims", [R(x), ax], sp=rng.choice(["mg", "np"]))
    if fn == "broadcast_to":
        shp = [rng.randint(2, 3) if n == 1 and rng.random() < 0.6 else n for n in xv.shape]
        shp = [rng.randint(1, 2) for _ in range(rng.randint(0, 1))] + shp
        if int(np.prod(shp, dtype=int)) > b.max_size:
            return None
        return b.call("broadcast_to", [R(x), ["t", shp]], sp=rng.choice(["mg", "np"]))
    if fn.startswith("atleast"):
        return b.call(fn if fn != "atleast" else rng.choice(["atleast_1d", "atleast_2d", "atleast_3d"]), [R(x)], sp=rng.choice(["mg", "np"]))
    if fn == "transpose":
        c = rng.random()
        if c < 0.3 or nd < 2:
            args = [R(x)]
        else:
            perm = list(range(nd))
            rng.shuffle(perm)
            perm = [p if rng.random() < 0.7 else p - nd for p in perm]
            args = [R(x), ["t", perm]] if c < 0.7 else [R(x)] + perm
        sp = b.spelling("transpose", first_t, True)
        if sp == "np" and len(args) > 2:
            sp = "mg"
        return b.call("transpose", args, sp=sp)
    if nd < 1:
        return None
    if fn == "moveaxis":
        s, d = rng.randrange(nd), rng.randrange(nd)
        if rng.random() < 0.3 and nd >= 2:
            ss = rng.sample(range(nd), 2)
            dd = rng.sample(range(nd), 2)
            args = [R(x), ["t", ss], ["t", dd]]
        else:
            args = [R(x), s if rng.random() < 0.5 else s - nd, d if rng.random() < 0.5 else d - nd]
        return b.call("moveaxis", args, sp=b.spelling("moveaxis", first_t, True))
    if fn == "swapaxes":
        a1, a2 = rng.randrange(nd), rng.randrange(nd)
        return b.call("swapaxes", [R(x), a1 if rng.random() < 0.5 else a1 - nd, a2], sp=b.spelling("swapaxes", first_t, True))
    if fn == "roll":
        c = rng.random()
        if c < 0.3:
            args, kw = [R(x), rng.randint(-3, 3)], {}
        elif c < 0.7:
            args, kw = [R(x), rng.randint(-3, 3)], {"axis": rng.randrange(nd)}
        else:
            k = rng.randint(1, nd)
            axes = rng.sample(range(nd), k)
            args, kw = [R(x), ["t", [rng.randint(-2, 2) for _ in axes]]], {"axis": ["t", axes]}
        return b.call("roll", args, kw=kw, sp=rng.choice(["mg", "np"]))
    return None


def g_join(b, fn=None):
    rng = b.rng
    fn = fn or rng.choice(["concatenate", "stack"])
    x = pick(b, lambda n: np.ndim(b.val(n)) >= (1 if fn == "concatenate" else 0))
    if x is None:
        return None
    xs = np.shape(b.val(x))
    nd = len(xs)
    ops = [x]
    if fn == "stack":
        ax = rng.randint(-nd - 1, nd)
        for _ in range(rng.randint(0, 2)):
            c = [n for n in b.tensors() if np.shape(b.val(n)) == xs]
            ops.append(rng.choice(c) if c and rng.random() < 0.6 else b.leaf(xs, kind=rng.choice(["tensor", "tensor", "array"])))
    else:
        ax = rng.randrange(nd)
        for _ in range(rng.randint(0, 2)):
            s = list(xs)
            s[ax] = rng.randint(1, 3)
            c = [n for n in b.tensors() if np.shape(b.val(n)) == tuple(s)]
            ops.append(rng.choice(c) if c and rng.random() < 0.5 else b.leaf(tuple(s), kind=rng.choice(["tensor", "tensor", "array"])))
        if rng.random() < 0.5:
            ax -= nd
    total = sum(np.size(b.val(o)) for o in ops)
    if total > b.max_size:
        return None
    rng.shuffle(ops)
    seq = ["l" if rng.random() < 0.5 else "t", [R(o) for o in ops]]
    kw = {"axis": ax} if not (ax == 0 and rng.random() < 0.5) else {}
    if fn == "concatenate" and rng.random() < 0.1:
        kw = {"axis": None}
    return b.call(fn, [seq], kw=kw, sp=rng.choice(["mg", "np"]))


def g_repeat(b):
    rng = b.rng
    x = pick(b)
    if x is None:
        return None
    xv = b.val(x)
    c = rng.random()
    if xv.ndim == 0 or c < 0.25:
        rep = rng.randint(0 if xv.size > 1 else 1, 3)
        kw = {}
        if rng.random() < 0.3 and xv.size <= 6:
            rep = ["l", [rng.randint(0, 2) for _ in range(xv.size)]]
            if sum(rep[1]) == 0:
                rep[1][0] = 1
    else:
        ax = rng.randrange(xv.ndim)
        n = xv.shape[ax]
        if rng.random() < 0.5:
            rep = rng.randint(1, 3)
            if getattr(b, "npint_args", False) and rng.random() < 0.3:
                rep = ["s", "int64", rep]
        else:
            rep = [rng.randint(0, 2) for _ in range(n)]
            if sum(rep) == 0:
                rep[0] = 1
            rep = ["l", rep] if rng.random() < 0.5 else enc_arr(np.array(rep))
        kw = {"axis": ax if rng.random() < 0.5 else ax - xv.ndim}
    return b.call("repeat", [R(x), rep], kw=kw, sp=rng.choice(["mg", "np"]))


NODE_GENS = [
    (g_unary, 22), (g_param_act, 5), (g_binary, 22), (g_matmul, 5), (g_seq, 3), (g_multi_matmul, 2),
    (g_reduce, 10), (g_cum, 3), (g_norm, 2), (g_einsum, 5), (g_getitem, 8), (g_where, 3), (g_clip, 2),
    (g_shape, 10), (g_join, 4), (g_repeat, 2),
]


def random_node(b, gens=NODE_GENS):
    total = sum(w for _, w in gens)
    r = b.rng.uniform(0, total)
    for g, w in gens:
        r -= w
        if r <= 0:
            return g(b)
    return gens[-1][0](b)


# ----------------------------------------------------------------------------------------- nnet layers / losses
def _rand_valid_axis(rng, documented_only=False):
    """(X, W, s, p, d) with (X + 2p - ((W-1)d+1)) / s + 1 a positive integer. Unless `documented_only`, configurations in the region
    of the recorded finding conv-dilation-overreject (W*d > X + 2p) are left out, so that programs using conv as an inner node run."""
    for _ in range(80):
        W, s, p, d = rng.randint(1, 3), rng.randint(1, 3), rng.choice([0, 0, 1, 2]), rng.choice([1, 1, 2, 3])
        g = rng.randint(1, 3)
        X = (g - 1) * s + (W - 1) * d + 1 - 2 * p
        if 1 <= X <= 7 and (documented_only or W * d <= X + 2 * p):
            return X, W, s, p, d
    return 3, 2, 1, 0, 1


def g_conv(b):
    rng = b.rng
    nsp = rng.choice([1, 1, 2, 2, 3])
    axes = [_rand_valid_axis(rng, documented_only=getattr(b, "conv_documented", False)) for _ in range(nsp)]
    N, C, Fn = rng.randint(1, 2), rng.randint(1, 2), rng.randint(1, 2)
    x = b.leaf((N, C) + tuple(a[0] for a in axes), kind=rng.choice(["tensor", "tensor", "array"]), constant=rng.choice([None, None, True]))
    w = b.leaf((Fn, C) + tuple(a[1] for a in axes), kind=rng.choice(["tensor", "tensor", "array"]))
    def spell(vals):
        return vals[0] if len(set(vals)) == 1 and rng.random() < 0.5 else ["t", list(vals)]
    kw = {"stride": spell([a[2] for a in axes])}
    if any(a[3] for a in axes) or rng.random() < 0.3:
        kw["padding"] = spell([a[3] for a in axes])
    if any(a[4] != 1 for a in axes) or rng.random() < 0.3:
        kw["dilation"] = spell([a[4] for a in axes])
    return b.call("conv_nd", [R(x), R(w)], kw=kw, sp="mg")


def g_pool(b):
    rng = b.rng
    nsp = rng.choice([1, 2, 2])
    lead = tuple(rng.randint(1, 2) for _ in range(rng.randint(0, 2)))
    dims = []
    for _ in range(nsp):
        P, s, g = rng.randint(1, 3), rng.randint(1, 3), rng.randint(1, 3)
        dims.append(((g - 1) * s + P, P, s))
    shape = lead + tuple(d[0] for d in dims)
    n = int(np.prod(shape))
    if n > 150:
        return None
    vals = np.array(rng.sample([round(0.1 * i - 3.0, 2) for i in range(200)], n)).reshape(shape)  # distinct values: no ties
    x = b.leaf(shape, values=vals)
    strides = [d[2] for d in dims]
    stride = strides[0] if len(set(strides)) == 1 and rng.random() < 0.5 else ["t", strides]
    return b.call("max_pool", [R(x), ["t", [d[1] for d in dims]], stride], sp="mg")


def g_batchnorm(b):
    rng = b.rng
    nd = rng.randint(2, 4)
    shape = (rng.randint(2, 4), rng.randint(1, 3)) + tuple(rng.randint(1, 3) for _ in range(nd - 2))
    x = b.leaf(shape)
    kw = {"eps": rng.choice([1e-3, 1e-2, 1e-1])}
    if rng.random() < 0.6:
        kw["gamma"] = R(b.leaf((shape[1],), kind=rng.choice(["tensor", "tensor", "array"])))
    if rng.random() < 0.6:
        kw["beta"] = R(b.leaf((shape[1],), kind=rng.choice(["tensor", "tensor", "array"])))
    return b.call("batchnorm", [R(x)], kw=kw, sp="mg")


def g_gru(b):
    rng = b.rng
    T, N, C, D = rng.randint(1, 3), rng.randint(1, 2), rng.randint(1, 3), rng.randint(1, 3)
    # C-contiguous float64 only: numba compiles one specialisation per (dtype, layout) signature, ~20 s each
    names = [b.leaf((T, N, C), lo=0.2, hi=1.0, kind=rng.choice(["tensor", "tensor", "array"]), layout="C", dtype="float64")]
    mixed = rng.random() < 0.35
    nd = lambda: "float32" if (mixed and rng.random() < 0.5) else "float64"
    for _ in range(3):
        names.append(b.leaf((C, D), lo=0.2, hi=1.0, constant=rng.choice([None, None, None, True]), layout="C", dtype="float64"))
        names.append(b.leaf((D, D), lo=0.2, hi=1.0, layout="C", dtype="float64"))
        names.append(b.leaf((D,), lo=0.2, hi=1.0, kind=rng.choice(["tensor", "tensor", "array"]), layout="C", dtype=nd()))
    kw = {}
    if rng.random() < 0.4:
        kw["s0"] = enc_arr(rand_values(rng, (N, D), 0.1, 0.8))
    return b.call("gru", [R(n) for n in names], kw=kw, sp="mg")


def g_loss(b, fn=None):
    rng = b.rng
    fn = fn or rng.choice(OT.LOSS_FNS)
    N, Cn = rng.randint(1, 4), rng.randint(2, 4)
    y = enc_arr(np.array([rng.randrange(Cn) for _ in range(N)]))
    if fn == "margin_ranking_loss":
        shp = (N,) if rng.random() < 0.5 else (N, rng.randint(1, 3))
        x1, x2 = b.leaf(shp), b.leaf(shp)
        yv = rng.choice([1, -1]) if rng.random() < 0.4 else enc_arr(np.array([rng.choice([1.0, -1.0]) for _ in range(N)]))
        args, kw = [R(x1), R(x2), yv, rng.choice([0.5, 1.0, 2.5])], {}
    elif fn == "focal_loss":
        raw = rand_values(rng, (N, Cn), 0.2, 1.0, signed=False)
        p = b.leaf((N, Cn), values=raw / raw.sum(axis=1, keepdims=True) * 0.9 + 0.03)
        args, kw = [R(p), y], {"alpha": rng.choice([1, 0.5, 2]), "gamma": rng.choice([0, 0.5, 1, 2])}
    elif fn == "softmax_focal_loss":
        args, kw = [R(b.leaf((N, Cn))), y], {"alpha": rng.choice([1, 0.5, 2]), "gamma": rng.choice([0, 0.5, 1, 2])}
    elif fn == "negative_log_likelihood":
        x = b.leaf((N, Cn), lo=0.2, hi=2.0)
        kw = {"weights": enc_arr(rand_values(rng, (Cn,), 0.5, 2.0, signed=False))} if rng.random() < 0.5 else {}
        args = [R(x), y]
    elif fn == "multiclass_hinge":
        args, kw = [R(b.leaf((N, Cn))), y], ({"hinge": rng.choice([0.5, 1.0, 2.0])} if rng.random() < 0.6 else {})
    else:
        args, kw = [R(b.leaf((N, Cn))), y], {}
    vals = [b.it.dec(a) for a in args]
    if not OT.SPECS[fn].in_domain(*vals, **{k: b.it.dec(v) for k, v in kw.items()}):
        return None
    return b.call(fn, args, kw=kw, sp="mg")


def g_layer(b):
    rng = b.rng
    return rng.choice([g_conv, g_pool, g_batchnorm, g_loss, g_loss])(b)


NODE_GENS_WITH_LAYERS = NODE_GENS + [(g_layer, 4)]

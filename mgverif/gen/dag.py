"""Random functional DAG programs (C01 and friends)."""
import numpy as np
from mgverif.gen import build as B
from mgverif.prog import enc_arr


def gen_dag(rng, nodes=(2, 10), dtype="float64", max_leaves=4, node_gens=None, seed_kinds=True, max_ndim=3):
    b = B.Builder(rng, dtype=dtype)
    # shape family
    base = B.rand_shape(rng, max_ndim, 3, 1)
    nleaf = rng.randint(1, max_leaves)
    for i in range(nleaf):
        shp = base if (i == 0 or rng.random() < 0.5) else B.bcast_variants(rng, base)
        const = None if i == 0 else rng.choice([None, None, None, True])
        b.leaf(shp, constant=const)
    if rng.random() < 0.4:
        b.leaf(B.bcast_variants(rng, base), kind="array")
    target = rng.randint(*nodes)
    made, tries = 0, 0
    while made < target and tries < target * 12:
        tries += 1
        n = B.random_node(b, node_gens or B.NODE_GENS)
        if n is not None:
            made += 1
    # terminal: a non-constant tensor, preferring late ones; sometimes combine two
    cands = [n for n in b.tensors() if b.meta[n]["nonconst"] and not b.meta[n].get("leaf")]
    if not cands:
        return None
    L = cands[-1] if rng.random() < 0.6 else rng.choice(cands)
    if rng.random() < 0.3 and len(cands) >= 2:
        o = rng.choice([c for c in cands if c != L])
        try:
            np.broadcast_shapes(np.shape(b.val(o)), np.shape(b.val(L)))
            L2 = b.call("add", [B.R(L), B.R(o)], sp="op")
            L = L2 or L
        except ValueError:
            pass
    Lv = b.val(L)
    seed = None
    if seed_kinds:
        c = rng.random()
        if c < 0.45:
            seed = None
        elif c < 0.6:
            seed = round(rng.uniform(0.5, 2.0), 3)
        elif c < 0.85:
            seed = enc_arr(B.rand_values(rng, np.shape(Lv), 0.3, 2.0))
        else:
            seed = enc_arr(B.rand_values(rng, B.bcast_variants(rng, np.shape(Lv)), 0.3, 2.0))
    b.prog.append({"k": "backward", "tgt": L, "seed": seed})
    return {"prog": b.prog, "L": L, "meta": {n: {"nonconst": m["nonconst"], "deps": sorted(m["deps"]), "tensor": m["tensor"]}
                                             for n, m in b.meta.items()}}

"""Histories of view creation, non-view reads and in-place updates over view families (C04, C05, C06, C07, C13)."""
import numpy as np

from mgverif import ops_table as OT
from mgverif.gen import build as B
from mgverif.prog import enc_arr, enc_index

R = B.R

UFUNC1_OUT = ["exp", "sin", "cos", "tanh", "square", "negative", "positive", "arctan", "sinh", "absolute", "sqrt", "log"]
UFUNC2_OUT = ["add", "subtract", "multiply", "divide", "maximum", "minimum", "logaddexp", "arctan2", "power"]


def members(b, only_float=None):
    out = []
    for n in b.tensors():
        v = b.val(n)
        if not isinstance(v, np.ndarray):
            continue
        if only_float is True and v.dtype.kind != "f":
            continue
        out.append(n)
    return out


def value_for(b, shape, dtype_kind="f", family_of=None, allow_tensor=True, positive=False, away0=False):
    """Encoded value broadcastable to `shape`: scalar / array literal / tensor (new leaf, existing member, or computed)."""
    rng = b.rng
    vshape = B.bcast_variants(rng, shape) if rng.random() < 0.6 else tuple(shape)
    if rng.random() < 0.1:
        vshape = (1,) * rng.randint(1, 2) + tuple(vshape)  # leading singleton axes are legal for set-item values
    lo, hi, signed = (0.4, 2.0, False) if positive else (0.3, 2.0, True)
    c = rng.random()
    if dtype_kind != "f":
        if c < 0.2:   # a float into an integer target: item assignment and augmented ops follow NumPy's own casting rules
            return round(rng.uniform(-3, 3), 2), []
        if c < 0.3:
            return enc_arr(B.rand_values(rng, vshape, 0.3, 3.0)), []
        if c < 0.6:
            return rng.randint(-3, 3), []
        return enc_arr(np.array([rng.randint(-3, 3) for _ in range(int(np.prod(vshape, dtype=int)))]).reshape(vshape)), []
    if c < 0.2:
        v = round(rng.uniform(lo, hi), 3)
        return (v if not signed or rng.random() < 0.5 else -v), []
    if c < 0.4 or not allow_tensor:
        return enc_arr(B.rand_values(rng, vshape, lo, hi, signed)), []
    if c < 0.65:
        # an existing tensor whose shape fits (possibly a member of the same family: overlapping read/write)
        cands = []
        for n in b.tensors():
            v = b.val(n)
            if isinstance(v, np.ndarray) and v.dtype.kind == "f":
                try:
                    if np.broadcast_shapes(v.shape, tuple(shape)) == tuple(shape) and (not positive or np.all(v > 0.3)) \
                            and (not away0 or np.all(np.abs(v) > 0.25)):
                        cands.append(n)
                except ValueError:
                    pass
        if cands:
            n = rng.choice(cands)
            return R(n), [n]
    if c < 0.85:
        n = b.leaf(vshape if len(vshape) <= 3 else tuple(shape), constant=rng.choice([None, None, True]), lo=lo, hi=hi, signed=signed)
        return R(n), [n]
    # computed tensor value: f(new leaf)
    n = b.leaf(tuple(shape), lo=lo, hi=hi, signed=signed)
    m = b.call(rng.choice(["sin", "square", "tanh"]) if not positive else "exp", [R(n)], sp="mg")
    if m is None or (away0 and not np.all(np.abs(b.val(m)) > 0.25)):
        return R(n), [n]
    return R(m), [m]


def _is_advanced(ix):
    items = ix if isinstance(ix, tuple) else (ix,)
    return any(isinstance(i, (np.ndarray, list)) for i in items)


def _overlap_is_value_first(tv, ix, val):
    from mgverif.hooks import root_array
    root = root_array(tv)
    if root_array(val) is not root or not (root.flags.c_contiguous or root.flags.f_contiguous):
        return False
    base_addr = root.__array_interface__["data"][0]

    def clone():
        r2 = root.copy(order="K")
        flat = np.lib.stride_tricks.as_strided(r2, shape=(r2.size,), strides=(r2.itemsize,))
        mk = lambda a: np.ndarray(a.shape, a.dtype, buffer=flat, offset=a.__array_interface__["data"][0] - base_addr, strides=a.strides)
        return r2, mk(tv), mk(val)
    try:
        r_a, t_a, v_a = clone()
        t_a[ix] = v_a                      # what NumPy does with the overlap
        r_b, t_b, v_b = clone()
        t_b[ix] = np.array(v_b, copy=True)  # value read first
    except Exception:
        return False
    return bool(np.array_equal(r_a, r_b))


def s_setitem(b, t, adv_prob=0.45):
    rng = b.rng
    tv = b.val(t)
    if tv.ndim >= 1 and min(tv.shape) >= 1 and rng.random() < adv_prob:
        ix = B.rand_adv_index(rng, tv.shape, allow_repeats=rng.random() < 0.5)
    else:
        ix = B.rand_basic_index(rng, tv.shape)
    try:
        sub = tv[ix]
    except Exception:
        return False
    if np.size(sub) == 0 and rng.random() < 0.8:
        return False
    val, refs = value_for(b, np.shape(sub), tv.dtype.kind)
    if rng.random() < 0.06 and tv.ndim >= 1 and tv.shape[0] >= 2 and tv.dtype.kind == "f" and not b.meta.get(t, {}).get("cv"):
        # (not for constant-view targets: the value would be READ through a constant tensor, which transmits nothing - C10)
        # the very same tensor as the value, under a step-only slice (x[::-1] = x reverses in place)
        ix = (slice(None, None, rng.choice([-1, -1, 1])),) + ((slice(None, None, -1),) if (tv.ndim >= 2 and rng.random() < 0.3) else ())
        if len(ix) == 1 and rng.random() < 0.6:
            ix = ix[0]      # the bare slice object as the key (not a 1-tuple)
        sub = tv[ix]
        val, refs = R(t), [t]
    adv = not (isinstance(sub, np.ndarray) and sub.base is not None and np.shares_memory(sub, tv)) and np.size(sub) > 0 and not np.isscalar(sub)
    if refs and isinstance(b.val(refs[0]), np.ndarray) and np.shares_memory(b.val(refs[0]), tv) and not _is_advanced(ix):
        # ... and for basic slices NumPy delivers 'value read first' only for some overlap patterns (x[::-1] = x reverses properly, but
        # x[2:8:2] = x[2:5] reads back elements it has just written - observed with NumPy 2.x). The statement is generated only where
        # NumPy's own result on a scratch copy of the buffer equals the value-read-first result, i.e. where NumPy is a specification.
        if not _overlap_is_value_first(tv, ix, b.val(refs[0])):
            return False
    if refs and isinstance(b.val(refs[0]), np.ndarray) and np.shares_memory(b.val(refs[0]), tv) and _is_advanced(ix):
        # NumPy's own result for fancy / boolean-mask assignment from an OVERLAPPING source is an implementation artifact (not the
        # 'value is read first' semantics it guarantees for basic slices), so it cannot serve as the specification there
        return False
    return b.emit({"k": "setitem", "tgt": t, "index": B.tensorize_index(b, enc_index(ix), 0.2), "value": val})


def s_aug(b, t):
    rng = b.rng
    tv = b.val(t)
    op = rng.choice(["+", "-", "*", "/", "**"] if tv.dtype.kind == "f" else ["+", "-", "*"])
    if op == "**":
        if not np.all(tv > 0.3) or not np.all(tv < 3):
            op = "*"
        else:
            return b.emit({"k": "aug", "tgt": t, "op": "**", "value": rng.choice([2, 0.5, 1, 3, -1])})
    val, refs = value_for(b, tv.shape, tv.dtype.kind, away0=(op == "/"))
    if op == "/":
        vv = b.it.dec(val)
        if not np.all(np.abs(np.asarray(vv)) > 0.25):
            return False
    # value must broadcast *to* the target shape
    try:
        if np.broadcast_shapes(np.shape(b.it.dec(val)), tv.shape) != tv.shape:
            return False
    except ValueError:
        return False
    return b.emit({"k": "aug", "tgt": t, "op": op, "value": val})


def s_uout(b, t):
    rng = b.rng
    tv = b.val(t)
    if tv.dtype.kind != "f":
        return False
    kw = {}
    if rng.random() < 0.45:
        ms = B.bcast_variants(rng, tv.shape) if rng.random() < 0.5 else tv.shape
        m = np.array([rng.random() < 0.55 for _ in range(int(np.prod(ms, dtype=int)))], dtype=bool).reshape(ms)
        kw["where"] = B.tensorize_index(b, enc_arr(m), 0.25)    # the mask sometimes as a (constant, boolean) tensor
        if rng.random() < 0.12:
            kw["where"] = rng.choice([False, False, True])     # the plain Python scalars: nothing / everything is written
    if rng.random() < 0.5:
        fn = rng.choice(UFUNC1_OUT)
        a, refs = value_for(b, tv.shape, "f", positive=fn in ("sqrt", "log"))
        if not isinstance(a, list):
            a = enc_arr(np.array(a, dtype=float))
        args = [a]
    else:
        fn = rng.choice(UFUNC2_OUT)
        a1, _ = value_for(b, tv.shape, "f", positive=(fn == "power"))
        a2, _ = value_for(b, tv.shape, "f", away0=(fn == "divide"))
        if not isinstance(a1, list) and not isinstance(a2, list):
            a1 = enc_arr(np.array(a1, dtype=float))
        args = [a1, a2]
    vals = [b.it.dec(a) for a in args]
    if not OT.SPECS[fn].in_domain(*vals):
        return False
    try:
        if np.broadcast_shapes(tv.shape, *[np.shape(v) for v in vals]) != tv.shape:
            return False
    except ValueError:
        return False
    return b.emit({"k": "uout", "fn": fn, "a": args, "kw": kw, "tgt": t, "sp": rng.choice(["mg", "np"])})


def exact_value(b, shape, lo=0.3, hi=2.0):
    """Encoded operand of exactly `shape` that shares no memory with any existing tensor: array literal, new leaf tensor (constant or
    not) or a tensor computed from a new leaf."""
    rng = b.rng
    shape = tuple(shape)
    c = rng.random()
    if c < 0.3:
        return enc_arr(B.rand_values(rng, shape, lo, hi, True))
    n = b.leaf(shape, constant=rng.choice([None, None, True]) if c < 0.7 else None, lo=lo, hi=hi)
    if c < 0.7:
        return R(n)
    m = b.call(rng.choice(["sin", "tanh", "square"]), [R(n)], sp="mg")
    return R(m if m is not None else n)


def s_fout(b, t):
    """out=<tensor> on the functions that are not plain ufuncs: matmul, einsum, clip, concatenate, stack."""
    rng = b.rng
    tv = b.val(t)
    if tv.dtype.kind != "f" or tv.size == 0 or tv.size > 24:
        return False
    sh = tv.shape
    kinds = ["einsum", "clip"]
    if tv.ndim == 2:
        kinds += ["matmul", "matmul"]
    if tv.ndim >= 1 and max(sh) >= 2:
        kinds += ["concatenate"]
    if tv.ndim >= 1 and 1 <= min(sh) and any(d <= 3 for d in sh):
        kinds += ["stack"]
    if b.meta.get(t, {}).get("cv"):
        # clip(out=) is two chained in-place steps (maximum, then minimum READING the target): on a constant-view target the second step's
        # operand is the constant target itself, which is the known finding seen from the operand's side rather than a new behaviour
        kinds = [k_ for k_ in kinds if k_ != "clip"]
    kind = rng.choice(kinds)
    kw = {}
    if kind == "matmul":
        k = rng.randint(1, 3)
        args = [exact_value(b, (sh[0], k)), exact_value(b, (k, sh[1]))]
    elif kind == "einsum":
        k = rng.randint(1, 3)
        lbl = "abcd"[: tv.ndim]
        if rng.random() < 0.5:
            args = [f"{lbl}z->{lbl}", exact_value(b, sh + (k,))]
        else:
            args = [f"{lbl}z,z->{lbl}", exact_value(b, sh + (k,)), exact_value(b, (k,))]
    elif kind == "clip":
        lo, hi = sorted([round(rng.uniform(-1.5, 0.2), 2), round(rng.uniform(0.3, 1.8), 2)])
        r = rng.random()
        args = [exact_value(b, sh), None if r < 0.2 else lo, None if 0.2 <= r < 0.4 else hi]
        if not OT.SPECS["clip"].in_domain(b.it.dec(args[0]), args[1], args[2]):
            return False
    elif kind == "concatenate":
        ax = rng.choice([i for i, d in enumerate(sh) if d >= 2])
        cut = rng.randint(1, sh[ax] - 1)
        parts = [exact_value(b, sh[:ax] + (d,) + sh[ax + 1:]) for d in (cut, sh[ax] - cut)]
        args = [["l", parts]]
        kw["axis"] = ax if rng.random() < 0.5 else ax - tv.ndim
    else:
        ax = rng.choice([i for i, d in enumerate(sh) if d <= 3])
        parts = [exact_value(b, sh[:ax] + sh[ax + 1:]) for _ in range(sh[ax])]
        args = [["l", parts] if rng.random() < 0.5 else ["t", parts]]
        kw["axis"] = ax if rng.random() < 0.5 else ax - tv.ndim
    return b.emit({"k": "uout", "fn": kind, "a": args, "kw": kw, "tgt": t, "sp": rng.choice(["mg", "np"])})


def s_setshape(b, t):
    rng = b.rng
    tv = b.val(t)
    if tv.size == 0:
        return False
    if sum(1 for v in b.it.env.values() if v is tv) > 1:
        return False  # NumPy handed the same array object to two names; a Tensor view cannot mirror object identity
    made = next((q for q in b.prog if q.get("out") == t and q["k"] == "call"), None)
    if made is not None and OT.SPECS[made["fn"]].npf is None and OT.SPECS[made["fn"]].kind not in ("u1", "u2"):
        return False  # the memory layout of a MyGrad-only function's result (batchnorm, ...) is not specified by a NumPy namesake: whether
        #               an in-place reshape is possible then depends on it, and the loop reference need not reproduce it
    dims = B.factorizations(tv.size, rng)
    if rng.random() < 0.2:
        dims[rng.randrange(len(dims))] = -1
    # NumPy's own in-place shape assignment on the shadow decides whether it is legal without a copy
    return b.emit({"k": "setshape", "tgt": t, "shape": ["t", dims] if rng.random() < 0.8 or len(dims) > 1 else dims[0]})


def s_view(b, t, const_kw_prob=0.0):
    rng = b.rng
    tv = b.val(t)
    c = rng.random()
    if c < 0.45:
        ix = B.rand_basic_index(rng, tv.shape)
        try:
            if np.size(tv[ix]) == 0 and rng.random() < 0.9:
                return None
        except Exception:
            return None
        return b.call("getitem", [R(t), enc_index(ix)], sp="mg", prefix="w")
    if c < 0.9:
        n = B.g_shape(b, x=t, only_view=True)
        if n is not None and const_kw_prob and rng.random() < const_kw_prob and tv.dtype.kind == "f" and b.prog[-1].get("out") == n \
                and b.prog[-1]["fn"] not in ("T",) and not b.prog[-1]["fn"].startswith("atleast"):
            # an explicit constant= on a view-producing call always wins over the base's flag
            flag = rng.random() < 0.5
            st = b.prog[-1]
            st.setdefault("kw", {})["constant"] = flag
            if st.get("sp") in ("np", "op"):
                st["sp"] = "mg"
            was = b.meta[t]["nonconst"] or b.meta[t].get("cv")
            b.meta[n]["nonconst"] = not flag
            if flag and was and getattr(b, "cv_as_targets", False):
                # a CONSTANT view of memory that belongs to a non-constant tensor: offered as an in-place TARGET only (reading through it
                # legitimately transmits no gradient - C10 - which the finite-difference model of shared memory cannot express)
                b.meta[n]["cv"] = True
                b.meta[n]["tensor"] = False
                b.cv_targets = getattr(b, "cv_targets", []) + [n]
        return n
    # diagonal / permutation through einsum (view-producing forms)
    if tv.ndim == 2 and tv.shape[0] == tv.shape[1] and rng.random() < 0.5:
        return b.call("einsum", ["ii->i", R(t)], sp=rng.choice(["mg", "np"]), prefix="w")
    if tv.ndim >= 2:
        letters = "ijkl"[: tv.ndim]
        perm = list(letters)
        rng.shuffle(perm)
        return b.call("einsum", [letters + "->" + "".join(perm), R(t)], sp="mg", prefix="w")
    return None


def s_read(b, t):
    """A non-view op consuming member t (pre/post-mutation reads)."""
    rng = b.rng
    tv = b.val(t)
    if tv.dtype.kind != "f":
        return b.call("multiply", [R(t), 2], sp="op")
    c = rng.random()
    if c < 0.35:
        fn = rng.choice(["sin", "tanh", "square", "exp", "arctan", "cos", "negative"])
        if not OT.SPECS[fn].in_domain(tv):
            fn = "tanh"
        return b.call(fn, [R(t)], sp=rng.choice(["mg", "np"]))
    if c < 0.7:
        y, yr = B.other_operand(b, t)
        fn = rng.choice(["add", "multiply", "subtract"])
        args = [R(t), y] if rng.random() < 0.5 else [y, R(t)]
        return b.call(fn, args, sp=rng.choice(["mg", "op", "np"]))
    if c < 0.74:
        return B.g_reduce(b, fn=rng.choice(["sum", "mean"]))
    if c < 0.8:
        # the member fed to ONE einsum several times (the operation keeps per-operand bookkeeping keyed by the operand)
        lbl = "abc"[: tv.ndim]
        form = rng.choice([f"{lbl},{lbl}->{lbl}", f"{lbl},{lbl}->", f"{lbl},{lbl},{lbl}->{lbl}"])
        return b.call("einsum", [form] + [R(t)] * form.split("->")[0].count(",") + [R(t)], sp=rng.choice(["mg", "np"]))
    if c < 0.88 and tv.ndim == 1 and 1 <= tv.shape[0] <= 3 and getattr(b, "layer_reads", False):
        # a layer that keeps references to its parameters besides Operation.variables: the family member is batchnorm's gamma / beta
        # (C-contiguous data: the layout of batchnorm's result follows its input's, and later view-or-copy decisions follow that layout;
        #  the loop reference only reproduces it for row-major input)
        x = b.leaf((rng.randint(2, 3), tv.shape[0]) + ((rng.randint(1, 2),) if rng.random() < 0.4 else ()), layout="C")
        kw = {"eps": rng.choice([1e-2, 1e-1])}
        which = rng.choice(["gamma", "beta", "both"])
        if which in ("gamma", "both"):
            kw["gamma"] = R(t)
        if which in ("beta", "both"):
            kw["beta"] = R(t)
        elif rng.random() < 0.5:
            kw["beta"] = R(b.leaf((tv.shape[0],)))
        return b.call("batchnorm", [R(x)], kw=kw, sp="mg")
    if tv.ndim >= 1 and min(tv.shape) >= 1:
        ix = B.rand_adv_index(rng, tv.shape)
        try:
            if np.size(tv[ix]) == 0:
                return None
        except Exception:
            return None
        return b.call("getitem", [R(t), enc_index(ix)], sp="mg")
    return None


def s_bad(b, t, kind=None):
    """A statement NumPy itself rejects (so MyGrad must reject it too and change nothing): appended WITHOUT touching the shadow.
    kind="index" asks for the IndexError form."""
    rng = b.rng
    tv = b.val(t)
    c = rng.random() if kind != "index" else 0.5
    if kind == "index" and tv.ndim < 1:
        return False
    st = None
    if c < 0.4 and tv.size > 1:
        dims = B.factorizations(tv.size, rng)
        if tuple(dims) == tv.shape:
            return False
        probe = tv.view()
        try:
            probe.shape = tuple(dims)
            return False           # NumPy can do it without a copy: not a bad statement
        except AttributeError:
            st = {"k": "setshape", "tgt": t, "shape": ["t", dims]}
    elif c < 0.55 and tv.ndim >= 1:
        # IndexError (out of bounds / too many indices), not ValueError
        ix = (tv.shape[0] + rng.randint(1, 3)) if rng.random() < 0.5 else ["t", [0] * (tv.ndim + 1)]
        st = {"k": "setitem", "tgt": t, "index": ix, "value": 1.5}
    elif c < 0.7:
        bad = tuple(n + 1 for n in tv.shape) if tv.ndim else (2, 2)
        st = {"k": "setitem", "tgt": t, "index": ["e"], "value": enc_arr(np.ones(bad))}
    else:
        bad = (2,) + tuple(tv.shape) if tv.ndim else (3,)
        st = {"k": "aug", "tgt": t, "op": rng.choice(["+", "*"]), "value": enc_arr(np.ones(bad))}
    st["expect_raise"] = True
    b.prog.append(st)
    return True


def gen_history(rng, nstmts=(3, 12), int_prob=0.12, base_from_op_prob=0.4, second_family_prob=0.3, inplace_w=4, view_w=4, read_w=3,
                setshape_w=0.6, max_ndim=3, layouts=None, nonconst_only=False, const_kw_prob=0.0, bad_w=0.0, cv_as_targets=False, layer_reads=False, guard_off_prob=0.0):
    b = B.Builder(rng)
    b.cv_as_targets = cv_as_targets
    b.layer_reads = layer_reads      # (only where values are compared with a tolerance: the loop references sum in another order)
    b.guard_off_prob = guard_off_prob
    shape = B.rand_shape(rng, max_ndim, 4, 1)
    is_int = rng.random() < int_prob
    if is_int:
        base = b.leaf(shape, dtype="int64", layout=rng.choice(["C", "F"]))
    else:
        u = b.leaf(shape, constant=None if nonconst_only else rng.choice([None, None, None, True]), layout=(layouts and rng.choice(layouts)))
        base = u
        if rng.random() < base_from_op_prob:
            nb = b.call(rng.choice(["multiply", "add"]), [R(u), round(rng.uniform(0.5, 1.5), 2)], sp="op", prefix="b")
            base = nb or u
    if rng.random() < second_family_prob:
        b.leaf(B.rand_shape(rng, 2, 3, 1), constant=rng.choice([None, True]))
    n_inplace = grow(b, rng, base, rng.randint(*nstmts), inplace_w, view_w, read_w, setshape_w, bad_w, nonconst_only, const_kw_prob)
    return b, base, n_inplace


def grow(b, rng, base, target, inplace_w=4, view_w=4, read_w=3, setshape_w=0.6, bad_w=0.0, nonconst_only=False, const_kw_prob=0.0):
    """Appends `target` random view / read / in-place statements over the builder's visible tensors; returns #in-place statements."""
    made = tries = 0
    n_inplace = 0
    acts = [("inplace", inplace_w), ("view", view_w), ("read", read_w), ("setshape", setshape_w), ("bad", bad_w)]
    tot = sum(w for _, w in acts)
    while made < target and tries < target * 10:
        tries += 1
        r = rng.uniform(0, tot)
        for a, w in acts:
            r -= w
            if r <= 0:
                break
        mem = members(b)
        if nonconst_only and a in ("inplace", "setshape"):
            mem = [m for m in mem if b.meta[m]["nonconst"]]
        if a == "inplace":
            mem = mem + [m for m in getattr(b, "cv_targets", []) if m in b.it.env]
            if getattr(b, "cv_as_targets", False):
                # (gradient-judging histories: memory OWNED by a constant tensor is not written through its non-constant views - whether a
                #  value written there can pass its gradient on through the constant owner is C10's question, not the FD model's)
                from mgverif.hooks import root_array as _root
                def _owner_ok(m):
                    r_ = _root(b.val(m))
                    for n2, v2 in b.it.env.items():
                        if v2 is r_ and n2 in b.meta:
                            return bool(b.meta[n2]["nonconst"])
                    return True
                mem = [m for m in mem if _owner_ok(m)]
        if not mem:
            if nonconst_only:
                continue
            break
        # prefer family members of the base (views of it) but allow any tensor
        t = rng.choice(mem) if (rng.random() < 0.7 or base not in mem) else base
        ok = None
        if a == "view":
            ok = s_view(b, t, const_kw_prob)
        elif a == "bad":
            ok = s_bad(b, t)
        elif a == "read":
            ok = s_read(b, t)
        elif a == "setshape":
            ok = s_setshape(b, t)
        else:
            c = rng.random()
            if c < 0.45:
                ok = s_setitem(b, t)
            elif c < 0.68:
                ok = s_aug(b, t)
            elif c < 0.88:
                ok = s_uout(b, t)
            else:
                ok = s_fout(b, t) or s_uout(b, t)
            if ok:
                n_inplace += 1
        if ok:
            made += 1
            if getattr(b, "guard_off_prob", 0.0) and b.prog and rng.random() < b.guard_off_prob and b.prog[-1]["k"] in ("call", "setitem", "aug", "uout"):
                b.prog[-1]["guard_off"] = True    # this statement runs inside `with mygrad.mem_guard_off:` (graph tracking stays on)
    return n_inplace


def epoch_boundary(b, rng, keep_hint=()):
    """Called right after a backward statement. Picks, from every NumPy memory family, at most one float non-constant C-/F-contiguous
    tensor among `keep_hint` (tensors known to be in the graph that backward just cleared) as a survivor; hides every other tensor
    from the generators (and deletes some), so that the next epoch's meaning does not depend on memory that MyGrad stopped sharing."""
    from mgverif.hooks import root_array
    fam = {}
    for n in keep_hint:
        v = b.it.env.get(n)
        made = next((q for q in b.prog if q.get("out") == n and q["k"] == "call"), None)
        if made is not None and OT.SPECS[made["fn"]].npf is None and OT.SPECS[made["fn"]].kind not in ("u1", "u2"):
            continue    # result of a MyGrad-only function: its memory layout (hence view-or-copy of later reshapes) has no NumPy specification
        if sum(1 for w in b.it.env.values() if w is v) > 1:
            continue    # the same object under two names (atleast_kd of a tensor that already has k dimensions returns the tensor itself)
        if isinstance(v, np.ndarray) and v.dtype.kind == "f" and v.size and b.meta[n]["nonconst"] and (v.flags.c_contiguous or v.flags.f_contiguous):
            fam.setdefault(id(root_array(v)), []).append(n)
    survivors = [rng.choice(ns) for ns in fam.values()]
    if not survivors:
        return None
    b.cv_targets = []      # constant views of the finished epoch are not written through any more
    for n, m in b.meta.items():
        if n not in survivors and m["tensor"]:
            m["tensor"] = False
            if n in b.it.env and rng.random() < 0.5:
                b.emit({"k": "del", "tgt": n})
    nulled = [n for n in survivors if rng.random() < 0.5]
    for n in nulled:
        b.emit({"k": "nullgrad", "tgt": n})
    assert b.emit({"k": "sever", "names": survivors})
    for n in survivors:
        b.meta[n]["leaf"] = True
    return survivors, nulled


def add_readout(b, rng, max_terms=4):
    """L = add_sequence(sum(t_i * w_i)...) over several float non-constant tensors; returns L's name or None."""
    cands = [n for n in b.tensors() if b.meta[n]["nonconst"] and isinstance(b.val(n), np.ndarray) and b.val(n).dtype.kind == "f" and b.val(n).size]
    if not cands:
        return None
    k = rng.randint(1, min(max_terms, len(cands)))
    chosen = rng.sample(cands, k)
    b.last_readout = []     # the tensors that really are multiplied into L (hence certainly in the graph L.backward() clears)
    terms = []
    for t in chosen:
        w = B.rand_values(rng, np.shape(b.val(t)), 0.3, 1.5)
        m = b.call("multiply", [R(t), enc_arr(w)], sp=rng.choice(["mg", "op"]), prefix="m")
        if m is None:
            continue
        s = b.call("sum", [R(m)], sp=rng.choice(["mg", "meth"]), prefix="s")
        if s is not None:
            terms.append(s)
            b.last_readout.append(t)
    if not terms:
        return None
    if len(terms) == 1:
        return terms[0]
    return b.call("add_sequence", [R(t) for t in terms], sp="mg", prefix="L")

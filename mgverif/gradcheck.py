"""Compares MyGrad's .grad of named tensors against O-fd under the injection rule."""
import numpy as np

from mgverif.oracle import FD, LD, scatter_delta, judge


def directions(rng, shape, full_upto=4, nrand=2):
    n = int(np.prod(shape, dtype=int))
    if n == 0:
        return []
    if n <= full_upto:
        out = []
        for i in range(n):
            v = np.zeros(n)
            v[i] = 1.0
            out.append(v.reshape(shape))
        return out
    out = []
    for _ in range(nrand):
        v = np.array([rng.uniform(0.3, 1.0) * rng.choice([-1, 1]) for _ in range(n)]).reshape(shape)
        out.append(v)
    return out


def check_grads(prog, skip, shadow, grads, bw_idx, names, rng, tau=1e-8, M=0.0, full_upto=4, nrand=2, fd=None, stale_ok=()):
    """grads: name -> ndarray or None (MyGrad's .grad right after the backward at bw_idx).
    Returns (violations, counters)."""
    fd = fd or FD(prog, skip)
    viol = []
    cnt = {"fd_dirs": 0, "fd_ok": 0, "fd_kink": 0, "fd_illcond": 0, "fd_none_ok": 0, "fd_tensors": 0}
    try:
        f0 = fd.value(bw_idx)
    except Exception as e:
        return [{"monitor": "O-fd", "msg": f"reference program failed: {type(e).__name__}: {e}", "mech": "reference-failed"}], cnt
    if not np.isfinite(f0):
        cnt["fd_illcond"] += 1
        return [], cnt
    for t in names:
        if t not in shadow.owner:
            continue
        o = shadow.owner[t]
        e = shadow.epoch[o]
        if e > bw_idx or shadow.created.get(t, 0) > bw_idx:
            continue
        idx = shadow.idx[t]
        oshape = np.shape(shadow.it.env[o]) if o in shadow.it.env else None
        if oshape is None:
            oshape = shadow.idx[o].shape
        g = grads.get(t)
        cnt["fd_tensors"] += 1
        gl = None if g is None else np.asarray(g, dtype=LD)
        gmax = 0.0 if g is None or np.size(g) == 0 else float(np.max(np.abs(g)))
        S = max(1.0, gmax, M)
        tau_t = tau if (g is None or g.dtype == np.float64) else max(tau, 64 * float(np.finfo(g.dtype).eps))
        for V in directions(rng, idx.shape, full_upto, nrand):
            delta = scatter_delta(oshape, idx, V)
            got = LD(0) if gl is None else (gl * np.asarray(V, dtype=LD)).sum()
            cnt["fd_dirs"] += 1
            verdict, info = judge(got, fd, bw_idx, e, o, delta, f0, tau_t, S)
            if verdict == "ok":
                cnt["fd_ok"] += 1
                if g is None:
                    cnt["fd_none_ok"] += 1
            elif verdict == "kink":
                cnt["fd_kink"] += 1
            elif verdict == "illcond":
                cnt["fd_illcond"] += 1
            elif t in stale_ok and abs(info.get("ref", 1.0)) <= 1e-10 * S and g is not None:
                # the read-out does not depend on this tensor at all: it may simply not be part of the back-propagated graph, in which case
                # it legitimately keeps the gradient an earlier backward() left on it
                cnt["fd_stale_unjudged"] = cnt.get("fd_stale_unjudged", 0) + 1
                break
            else:
                info.update({"tensor": t, "owner": o, "epoch_stmt": e, "grad_is_none": g is None, "S": S,
                             "direction": np.asarray(V).ravel().tolist()[:16]})
                viol.append({"monitor": "O-fd", "msg": f"d/d{t} mismatch: got {info['got']:.12g} ref {info['ref']:.12g} "
                                                        f"(ec {info['ec']:.2g}, S {S:.3g}, grad None: {g is None})", "info": info})
                break
    cnt["fd_evals"] = fd.nevals
    return viol, cnt

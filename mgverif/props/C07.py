"""C07 — backward() releases the whole graph and gradients never go stale."""
import gc
import random
import numpy as np

from mgverif.hooks import REG
from mgverif.prog import Interp
from mgverif import mgrun
from mgverif.gen.dag import gen_dag
from mgverif.props import C05
from mygrad.errors import InvalidBackprop

PID = "C07"
LEVEL = "exploration"
RULE = ("three seeded workloads with the cyclic GC disabled for the whole case: (iter) a random functional DAG program over fixed leaves is "
        "re-executed k in 2..5 times, each time followed by backward, with a random subset of intermediate names kept by the 'user' and the "
        "rest dropped; (hist) an in-place/view history with read-out and backward; (life) a gradient life-cycle script on a leaf and its views "
        "(backward, view creation, reads of .grad, null_grad, non-view use, in-place update, second backward, untracked use) driven against a "
        "small reference state machine. Judged: M-graphstate (after backward, L and every tensor that was upstream of it has no creator and no "
        "live consumer), M-release (every Tensor / Operation / placeholder created by the case and not reachable from the user's names through "
        "base references is dead by reference counting alone), iteration k's leaf gradients are bit-identical to iteration 1's, and the "
        "life-cycle state machine (gradient present / gone at every step, for the leaf and its views). Non-trivial: >=1 backward with >=3 "
        "upstream tensors; distinct = structure hash + kept-set.")
ASSUMPTIONS = ["objects legitimately kept alive by a held view's base reference are exempt", "gradient persistence under no_autodiff use is recorded, not judged"]
TIERS = {"quick": {"cases": 3000, "nodes": (2, 10), "nstmts": (3, 10)}, "thorough": {"cases": 90000, "nodes": (3, 24), "nstmts": (4, 22)}}
FLOORS = {"quick": {"graphstate_checks": 20000, "release_checks": 4000, "iter_compared": 3000, "life_steps": 4000},
          "thorough": {"graphstate_checks": 100000, "release_checks": 20000, "iter_compared": 15000, "life_steps": 20000}}


def gen_case(rng, cfg, idx):
    r = idx % 3
    if r == 0:
        for _ in range(20):
            c = gen_dag(rng, nodes=cfg["nodes"], seed_kinds=False)
            if c is not None:
                return {"kind": "iter", "prog": c["prog"], "L": c["L"], "k": rng.randint(2, 5), "kseed": rng.randrange(1 << 30)}
        return None
    if r == 1 and idx % 9 == 1:
        # a functional history (views and reads only) in which the user then attempts in-place updates that NumPy rejects - wrong shapes, or an
        # index out of bounds (IndexError) - catches the error and carries on to the read-out: everything must be released as if the attempt had
        # not been made (the model-upstream monitor covers every tensor of such a history)
        from mgverif.gen.inplace import gen_history, add_readout, s_bad, members
        for _ in range(10):
            b, base, _n = gen_history(rng, nstmts=cfg["nstmts"], int_prob=0.0, nonconst_only=True, inplace_w=0, setshape_w=0, view_w=5, read_w=4)
            mem = members(b)
            made = 0
            for _k in range(rng.randint(1, 3)):
                if mem and s_bad(b, rng.choice(mem), kind="index" if rng.random() < 0.6 else None):
                    made += 1
            L = add_readout(b, rng)
            if L is None or not made:
                continue
            b.prog.append({"k": "backward", "tgt": L, "seed": None})
            return {"kind": "hist", "prog": b.prog, "L": L, "kseed": rng.randrange(1 << 30), "failed_writes": made}
        return None
    if r == 1:
        c = C05.gen_case(rng, {"nstmts": cfg["nstmts"], "two_epoch": "random", "bad_w": 0.4}, idx)
        if c is None:
            return None
        # (a second epoch whose read-out could not be built leaves statements after the last backward: the history ends at that backward)
        prog = c["prog"][: c["bws"][-1] + 1]
        return {"kind": "hist", "prog": prog, "L": prog[-1]["tgt"], "kseed": rng.randrange(1 << 30)}
    steps = []
    n = rng.randint(4, 14)
    acts = ["backward", "view", "read", "nullgrad", "use", "inplace", "backward", "untracked", "useview", "readview", "backward_view", "inplace_view",
            "use_advidx", "use_boolidx", "use_einsum", "use_as_value", "nullgrad_discview", "view", "backward", "inplace_dangview", "inplace_dangview", "setshape_view", "setshape_view",
            "squeeze_view", "failcall", "failcall"]
    for _ in range(n):
        steps.append(rng.choice(acts))
    return {"kind": "life", "steps": steps, "shape": [rng.randint(2, 3)] * rng.randint(1, 2), "kseed": rng.randrange(1 << 30)}


def upstream_tensors(t):
    seen, out, stack = set(), [], [t]
    while stack:
        x = stack.pop()
        if id(x) in seen:
            continue
        seen.add(id(x))
        out.append(x)
        if x._creator is not None:
            stack += list(x._creator.variables)
    return out


def graphstate(pre, cnt, viol, where):
    for x in pre:
        cnt["graphstate_checks"] = cnt.get("graphstate_checks", 0) + 1
        if x._creator is not None:
            viol.append({"monitor": "M-graphstate", "mech": "creator-survives-backward", "msg": f"{where}: a tensor upstream of L still has a creator ({type(x._creator).__name__})"})
            return
        if any(r() is not None for r in x._ops):
            viol.append({"monitor": "M-graphstate", "mech": "consumer-survives-backward", "msg": f"{where}: a tensor upstream of L still records a live consumer"})
            return


def reachable_ids(roots, limit=200000):
    """ids of all objects strongly reachable from `roots` (true reachability through gc.get_referents), not descending into
    modules, classes, module globals, code objects or frames (they never own graph objects)."""
    import types
    seen = set()
    stack = list(roots)
    skip = (type, types.ModuleType, types.CodeType, types.FrameType, types.BuiltinFunctionType, str, bytes, int, float, bool, type(None))
    while stack and len(seen) < limit:
        o = stack.pop()
        if id(o) in seen or isinstance(o, skip):
            continue
        if isinstance(o, dict) and "__builtins__" in o:
            continue
        seen.add(id(o))
        stack.extend(gc.get_referents(o))
    return seen


def release(env, cnt, viol, where):
    """Everything the case created must be dead unless it is strongly reachable from the user's names (a held view keeps its
    base; a held tensor whose graph was not backpropagated keeps that graph, including the placeholders its in-place
    machinery closes over)."""
    allowed = reachable_ids([v for v in env.values() if mgrun.is_tensor(v)])
    cnt["release_checks"] = cnt.get("release_checks", 0) + 1
    lt = [t for t in (r() for r in REG.tensors) if t is not None and id(t) not in allowed]
    lo = [o for o in (r() for r in REG.ops) if o is not None and id(o) not in allowed]
    lp = [p for p in (r() for r in REG.placeholders) if p is not None and id(p) not in allowed]
    n = len(lt) + len(lo) + len(lp)
    cnt["release_objects_tracked"] = cnt.get("release_objects_tracked", 0) + len(REG.tensors) + len(REG.ops)
    if n:
        what = f"{len(lt)} tensors, {len(lo)} operations ({sorted({type(o).__name__ for o in lo})[:4]}), {len(lp)} placeholders"
        viol.append({"monitor": "M-release", "mech": "not-freed-by-refcount", "msg": f"{where}: still alive without a collection and not referenced by the user: {what}"})
    del lt, lo, lp, allowed


def run_iter(case, cnt, viol, sets):
    prog = case["prog"]
    rng = random.Random(case["kseed"])
    leaves = [st for st in prog if st["k"] == "leaf"]
    body = [st for st in prog if st["k"] != "leaf"]
    it = Interp("mg")
    for i, st in enumerate(leaves):
        it.exec(i, st)
    leafnames = {st["out"] for st in leaves}
    first = None
    for k in range(case["k"]):
        for i, st in enumerate(body[:-1]):
            it.exec(i, st)
        L = it.env[case["L"]]
        pre = upstream_tensors(L)
        nup = len(pre)
        L.backward()
        graphstate(pre, cnt, viol, f"iteration {k}")
        del pre, L
        grads = {n: (None if it.env[n].grad is None else it.env[n].grad.copy()) for n in leafnames if mgrun.is_tensor(it.env[n])}
        if first is None:
            first = grads
        else:
            for n, g in grads.items():
                cnt["iter_compared"] = cnt.get("iter_compared", 0) + 1
                g0 = first[n]
                if (g is None) != (g0 is None) or (g is not None and not np.array_equal(g, g0, equal_nan=True)):
                    viol.append({"monitor": "iteration", "mech": "iteration-gradients-differ",
                                 "msg": f"iteration {k}: {n}.grad differs from iteration 0 ({None if g is None else g.ravel()[:3]} vs {None if g0 is None else g0.ravel()[:3]})"})
        others = [n for n in it.env if n not in leafnames]
        keep = set(rng.sample(others, rng.randint(0, min(3, len(others))))) if others else set()
        for n in others:
            if n not in keep:
                del it.env[n]
        it.literals.clear()
        release(it.env, cnt, viol, f"iteration {k} (kept {sorted(keep)})")
        cnt["upstream_max"] = max(cnt.get("upstream_max", 0), nup)
        if viol:
            break
    return nup


def model_upstream(prog, env):
    """Names of non-constant tensors that the program's dataflow puts upstream of the tensor back-propagated by the last statement, restricted to
    single-epoch histories and to memory families that no *successful* in-place statement ever wrote (after such a statement the public tensor
    legitimately is a new node of the graph, with a creator, while its former self lives on as an internal copy)."""
    from mgverif.oracle import Shadow
    if any(st["k"] in ("sever",) for st in prog) or sum(1 for st in prog if st["k"] in ("backward", "clear")) != 1:
        return []
    try:
        sh = Shadow(prog).run_all()
    except Exception:
        return []
    if any(not prog[i].get("expect_raise") for i in (sh.raised if isinstance(sh.raised, dict) else range(len(prog)) if sh.raised else ())):
        return []
    touched = set()
    for st in prog:
        if st.get("expect_raise"):
            continue
        tg = st.get("tgt") if st["k"] in ("setitem", "aug", "uout", "setshape") else None
        if st["k"] == "call" and isinstance(st.get("kw", {}).get("out"), list):
            tg = st["kw"]["out"][1] if st["kw"]["out"][:1] == ["r"] else "?"
        if tg is not None:
            touched.add(sh.owner.get(tg, tg))
    if "?" in touched:
        return []
    ok = lambda n: mgrun.is_tensor(env.get(n)) and not env[n].constant
    U = {prog[-1]["tgt"]}
    for st in reversed(prog[:-1]):
        if st.get("expect_raise"):
            continue
        if st["k"] == "call" and st.get("out") in U and ok(st["out"]) and sh.owner.get(st["out"], st["out"]) not in touched:
            # (a tensor whose memory was written in place no longer is what its defining call made it: the closure stops there)
            # operands in differentiable positions only: top-level positional tensors (an index, mask or condition is data to the graph)
            args = list(st.get("a", []))
            if st["fn"] == "where":
                args = args[1:]
            elif st["fn"] in ("getitem", "take_along_axis", "put_along_axis"):
                args = args[:1]
            U.update(a[1] for a in args if isinstance(a, list) and len(a) == 2 and a[0] == "r" and ok(a[1]))
        elif st["k"] == "alias" and st.get("out") in U:
            U.add(st["src"])
    return sorted(n for n in U if ok(n) and sh.owner.get(n, n) not in touched)


def run_hist(case, cnt, viol, sets):
    prog = case["prog"]
    while prog and prog[-1]["k"] != "backward":
        prog = prog[:-1]
    it = Interp("mg")
    for i_, st_ in enumerate(prog[:-1]):   # (two-epoch histories: everything up to the LAST backward, earlier backward passes included)
        if st_.get("expect_raise"):
            # a statement NumPy itself rejects: the user catches the error and carries on
            try:
                it.exec(i_, st_)
            except Exception:
                cnt["hist_rejected_stmts"] = cnt.get("hist_rejected_stmts", 0) + 1
        else:
            it.exec(i_, st_)
    L = it.env[prog[-1]["tgt"]]
    cnt["hist_epochs"] = cnt.get("hist_epochs", 0) + sum(1 for st in prog if st["k"] == "backward")
    if case.get("failed_writes"):
        cnt["hist_failed_write_cases"] = cnt.get("hist_failed_write_cases", 0) + 1
    pre = upstream_tensors(L)
    nup = len(pre)
    model_up = model_upstream(prog, it.env)
    L.backward()
    graphstate(pre, cnt, viol, "history")
    del pre, L
    # the tensors the USER holds that the program's own dataflow puts upstream of L (not the library's idea of the graph, which a botched
    # in-place bookkeeping may have re-routed to internal copies): released as well
    for n in model_up:
        t = it.env.get(n)
        if t is None:
            continue
        cnt["model_upstream_checks"] = cnt.get("model_upstream_checks", 0) + 1
        if t.creator is not None or any(r() is not None for r in t._ops):
            viol.append({"monitor": "M-graphstate", "mech": "model-upstream-not-released",
                         "msg": f"history: {n} is upstream of the back-propagated tensor by the program's dataflow (and its memory was never updated in place) but "
                                f"keeps creator={type(t.creator).__name__ if t.creator is not None else None}, live consumers={sum(1 for r in t._ops if r() is not None)}"})
            del t
            break
        del t
    rng = random.Random(case["kseed"])
    names = list(it.env)
    for n in names:
        if rng.random() < 0.6:
            del it.env[n]
    it.literals.clear()
    release(it.env, cnt, viol, "history")
    cnt["placeholders_created"] = cnt.get("placeholders_created", 0) + len(REG.placeholders)
    return nup


def run_life(case, cnt, viol, sets):
    """Gradient life-cycle of a leaf x and of its CONNECTED views (views made since the last backward pass: a backward pass
    ends the epoch and severs older views, which are then not judged)."""
    import mygrad as mg
    shape = tuple(case["shape"])
    x = mg.tensor(np.arange(1.0, 1.0 + int(np.prod(shape))).reshape(shape))
    conn = []           # connected views (x[0:1]) of the current epoch
    disc = []           # views severed by a backward pass
    dang = []           # views that existed during a backward pass without taking part in it
    rng_ = random.Random(case.get("kseed", 0))
    have = False        # reference state machine: does x hold a gradient?  (None = not judged until the next definite event)
    expected = None
    for i, s in enumerate(case["steps"]):
        cnt["life_steps"] = cnt.get("life_steps", 0) + 1
        skip_views = False
        if s == "backward":
            w = np.arange(2.0, 2.0 + x.size).reshape(x.shape) * (i + 1)
            (x * w).sum().backward()
            have, expected = True, w
            dang.extend(conn)    # views that did not take part: the backward pass released the leaf's view list, they dangle
            conn_after = []
        elif s == "backward_view":
            if not conn:
                continue
            (conn[-1] * 3.0).sum().backward()
            have = True
            expected = np.zeros(x.shape)
            expected[0:1] = 3.0
            conn_after = []
        elif s == "view":
            conn.append(x[0:1])
            conn_after = conn
        elif s == "nullgrad":
            x.null_grad()
            have, expected = False, None
            conn_after = conn
        elif s in ("use", "use_advidx", "use_boolidx", "use_einsum", "use_as_value"):
            # every one of these consumes the leaf in an operation that is not a view of it (the view-capable indexing / einsum
            # ops return copies here; as the value of a set-item the leaf feeds an in-place update)
            if s == "use":
                y = x * 2.0
            elif s == "use_advidx":
                y = x[np.array([0, 0])]
            elif s == "use_boolidx":
                y = x[x.data > 1.5]
            elif s == "use_einsum":
                y = mg.einsum("i...->...", x)
            else:
                y = mg.tensor(np.zeros(x.shape))
                y[...] = x
            del y
            have, expected = False, None
            conn_after = conn
        elif s == "nullgrad_discview":
            if not disc:
                continue
            v = disc[-1]
            v.null_grad()
            cnt["life_view_checks"] = cnt.get("life_view_checks", 0) + 1
            if v.grad is not None:
                viol.append({"monitor": "lifecycle", "mech": "null_grad-on-severed-view-keeps-gradient",
                             "msg": f"step {i}: null_grad() on a view that took part in an earlier backward pass still reads a gradient"})
                break
            conn_after = conn
        elif s == "useview":
            if not conn:
                continue
            y = conn[-1] * 2.0   # non-view use of a view: the LEAF was not used, its gradient persists; the view is not judged here
            del y
            skip_views = True
            conn_after = conn
        elif s == "inplace":
            x[...] = x.data + 0.0
            have, expected = False, None
            conn_after = conn
        elif s == "inplace_view":
            if not conn:
                continue
            try:
                conn[-1][...] = 1.0
            except Exception as e:
                viol.append({"monitor": "lifecycle", "mech": f"inplace-on-view-raises:{type(e).__name__}",
                             "msg": f"step {i}: in-place update through a view of a leaf (leaf holds a gradient: {have}) raised {type(e).__name__}: {e}"})
                return 3
            have, expected = False, None
            conn_after = conn
        elif s == "setshape_view":
            # assigning .shape on a connected view reshapes that view alone: the leaf took no part and keeps data and gradient
            if not conn:
                continue
            v = conn.pop(rng_.randrange(len(conn)))
            before = x.data.copy()
            v.shape = tuple(v.shape) + (1,) if rng_.random() < 0.5 else (1,) + tuple(v.shape)
            del v
            cnt["life_view_setshape"] = cnt.get("life_view_setshape", 0) + 1
            if not np.array_equal(x.data, before):
                viol.append({"monitor": "lifecycle", "mech": "view-setshape-changes-leaf", "msg": f"step {i}: assigning .shape on a view changed the leaf's data"})
                break
            conn_after = conn
        elif s == "inplace_dangview":
            # an in-place update through a view that an earlier backward pass cut loose acts on that view alone: the leaf took no part,
            # keeps its data and its gradient
            if not dang:
                continue
            before = x.data.copy()
            v = dang[rng_.randrange(len(dang))]
            how = rng_.randrange(3)
            if how == 0:
                v *= 2.0
            elif how == 1:
                v[...] = 0.5
            else:
                v += mg.tensor(np.ones(v.shape))
            del v
            cnt["life_dangling_inplace"] = cnt.get("life_dangling_inplace", 0) + 1
            if not np.array_equal(x.data, before):
                viol.append({"monitor": "lifecycle", "mech": "dangling-view-write-reaches-leaf", "msg": f"step {i}: an in-place update through a released view changed the leaf's data"})
                break
            conn_after = conn
        elif s == "untracked":
            with mg.no_autodiff:
                y = x * 2.0
            del y
            conn_after = conn
        elif s == "squeeze_view":
            # a VIEW operation that changes nothing (no unit axis to squeeze): the leaf is not "used as input to a non-view operation",
            # its gradient persists - and the result is a proper view of it
            y = mg.squeeze(x) if rng_.random() < 0.5 else x.squeeze()
            if y is not x and y.base is not x:
                viol.append({"monitor": "lifecycle", "mech": "view-op-result-without-base", "msg": f"step {i}: squeeze(x) of shape {x.shape} shares x's memory but reports base {y.base!r}"})
            del y
            conn_after = conn
        elif s == "failcall":
            # an operation on the leaf that FAILS (while its result is wrapped / in the kernel) is not a use: nothing changes
            try:
                if rng_.random() < 0.5:
                    mg.multiply(x, 2.0, dtype=np.complex64)
                else:
                    mg.add(x, np.ones((7, 5)))        # (7, 5) broadcasts with none of the leaf shapes used here
                viol.append({"monitor": "harness", "mech": "failcall-did-not-fail", "msg": f"step {i}: the call meant to fail returned"})
            except Exception:
                pass
            conn_after = conn
        else:  # read / readview: reading must not change anything
            _ = x.grad
            for v in conn:
                _ = v.grad
            conn_after = conn
        g = x.grad
        if have and g is None:
            viol.append({"monitor": "lifecycle", "mech": "gradient-lost-early", "msg": f"step {i} ({s}): leaf gradient disappeared although the leaf was not re-used"})
        elif not have and g is not None:
            viol.append({"monitor": "lifecycle", "mech": "stale-gradient-survives", "msg": f"step {i} ({s}): leaf still reads a gradient after {s}"})
        elif have and expected is not None and not np.array_equal(g, expected):
            viol.append({"monitor": "lifecycle", "mech": "gradient-accumulated-or-wrong", "msg": f"step {i} ({s}): leaf gradient {g.ravel()[:3]} expected {expected.ravel()[:3]}"})
        if not skip_views:
            for v in conn:
                vg = v.grad
                cnt["life_view_checks"] = cnt.get("life_view_checks", 0) + 1
                if not have and vg is not None:
                    viol.append({"monitor": "lifecycle", "mech": "view-reads-stale-gradient", "msg": f"step {i} ({s}): a connected view still reads a gradient after the leaf's gradient is gone"})
                    break
                if have and (vg is None or not np.array_equal(vg, expected[0:1])):
                    viol.append({"monitor": "lifecycle", "mech": "view-gradient-wrong",
                                 "msg": f"step {i} ({s}): connected view gradient {None if vg is None else vg.ravel()[:3]} expected {expected[0:1].ravel()[:3]}"})
                    break
        if s == "backward_view":
            disc.append(conn[-1])   # the view that was itself back-propagated lost its creator: it is severed from the leaf
        conn = conn_after
        if viol:
            break
    sets["life_steps"] = sorted(set(case["steps"]))
    return 3


def run_case(case):
    REG.reset()
    gc.collect()
    was = gc.isenabled()
    gc.disable()
    cnt, viol, sets = {}, [], {}
    try:
        c0 = gc.get_count()
        nup = {"iter": run_iter, "hist": run_hist, "life": run_life}[case["kind"]](case, cnt, viol, sets)
        cnt["gc_disabled_cases"] = 1
    finally:
        if was:
            gc.enable()
    sets["kinds"] = [case["kind"]]
    sets["opclasses"] = sorted(REG.opclasses)
    sig = case["kind"] + ":" + (mgrun.struct_sig(case["prog"]) if "prog" in case else "-".join(case["steps"]))
    return {"viol": viol[:4], "counters": cnt, "sets": sets, "sig": sig, "nontrivial": nup >= 3}

"""C10 — constant semantics: constants never receive or transmit gradients."""
import copy
import itertools
import random
import numpy as np

from mgverif.hooks import REG
from mgverif.prog import Interp
from mgverif import mgrun, ops_table as OT
from mgverif.gen.dag import gen_dag
from mgverif.gen import build as B

PID = "C10"
LEVEL = "exploration"
RULE = ("(lattice, enumerated completely in both tiers) the program z = f(a, b); w = g(z, c); w.backward() for every assignment of "
        "dtype in {float64, int64, bool} x constant in {None, True, False} to the three leaves and constant in {None, True, False} to both "
        "calls (6561 programs); (random) seeded DAG programs over the op table with leaf dtypes/flags and per-call constant= keywords drawn "
        "at random, spellings mg/np/method. Reference model: integer/boolean tensors are constant and constant=False on them raises; float "
        "leaves default to non-constant; a result is constant iff all inputs are constant unless constant= is given, which wins (and raises "
        "for an integer result with constant=False). Judged: every tensor's flag equals the model; statements the model says must raise do "
        "(ValueError) and others do not; constant tensors never hold a .grad after backward; O-meta: the program re-executed with every "
        "constant leaf tensor replaced by its plain ndarray yields bit-identical gradients for all other tensors. "
        "M-path: after the backward passes a non-constant tensor holds a gradient exactly when a back-propagated tensor depends on it "
        "through non-constant tensors only (views outside the graph excepted); a third of the random programs carry a SECOND graph, alive "
        "at the same time, that shares only constant tensors with the first one (as direct operands next to a non-constant tensor) and is "
        "back-propagated after it: no backward may raise. Non-trivial: >=1 constant "
        "and >=1 non-constant tensor upstream of L; distinct = structure + flag assignment.")
ASSUMPTIONS = ["in-place targets keeping their flag is monitored by C04 on every statement of its histories"]
TIERS = {"quick": {"cases": 6561 + 12000, "nodes": (2, 8)}, "thorough": {"cases": 6561 + 600000, "nodes": (2, 20)}}
FLOORS = {"quick": {"flag_checks": 40000, "meta_compared": 10000, "lattice_cases": 6561, "path_checks": 20000, "second_graph_backwards": 500},
          "thorough": {"flag_checks": 200000, "meta_compared": 50000, "lattice_cases": 6561, "path_checks": 100000, "second_graph_backwards": 2500}}
LATTICE = list(itertools.product(*([list(itertools.product(["float64", "int64", "bool"], [None, True, False]))] * 3), [None, True, False], [None, True, False]))


def lattice_case(i):
    (la, lb, lc, ka, kb) = LATTICE[i]
    vals = {"float64": [0.5, 1.5, 2.0], "int64": [1, 2, 3], "bool": [True, False, True]}
    prog = []
    for n, (dt, c) in zip("abc", (la, lb, lc)):
        prog.append({"k": "leaf", "out": n, "kind": "tensor", "dtype": dt, "shape": [3], "data": vals[dt], "constant": c, "layout": "C"})
    k1 = {} if ka is None else {"constant": ka}
    k2 = {} if kb is None else {"constant": kb}
    prog.append({"k": "call", "out": "z", "fn": "add", "a": [["r", "a"], ["r", "b"]], "kw": k1, "sp": "mg"})
    prog.append({"k": "call", "out": "w", "fn": "multiply", "a": [["r", "z"], ["r", "c"]], "kw": k2, "sp": "mg"})
    prog.append({"k": "backward", "tgt": "w", "seed": None})
    return {"prog": prog, "L": "w", "lattice": True}


def gen_case(rng, cfg, idx):
    if idx < len(LATTICE):
        return lattice_case(idx)
    if idx % 4 == 3:
        # in-place histories (C04's generator, with explicit constant= on views): an in-place target keeps its own flag
        from mgverif.gen.inplace import gen_history
        b, base, n_inplace = gen_history(rng, nstmts=(3, 10), const_kw_prob=0.25, setshape_w=0.2)
        from mgverif.gen.inplace import add_readout
        L = add_readout(b, rng)
        if L is not None:
            b.prog.append({"k": "backward", "tgt": L, "seed": None})
        return {"prog": b.prog, "hist": True}
    for _ in range(20):
        c = gen_dag(rng, nodes=cfg["nodes"], seed_kinds=False)
        if c is None:
            continue
        prog = c["prog"]
        if rng.random() < 0.35:
            # a constant operand sharing its MEMORY with a non-constant leaf (astensor(x, constant=True), Tensor(x, copy=False,
            # constant=True) or the raw x.data) used next to that leaf: the constant must still neither receive nor transmit gradient
            fl = [st for st in prog if st["k"] == "leaf" and st.get("kind") == "tensor" and st.get("constant") is not True and len(st["shape"]) >= 1]
            if fl:
                x = rng.choice(fl)["out"]
                how = rng.choice(["astensor", "Tensor", "data"])
                nd = len(next(st for st in prog if st.get("out") == x)["shape"])
                lbl = "ijk"[:nd]
                pos = max(i for i, st in enumerate(prog) if st["k"] == "leaf") + 1
                extra = [{"k": "constof", "out": "calias", "src": x, "how": how}]
                r = rng.random()
                if r < 0.5:
                    extra.append({"k": "call", "out": "ealias", "fn": "einsum", "a": [f"{lbl},{lbl}->" + rng.choice(["", lbl[:1], lbl]), ["r", x], ["r", "calias"]][:3] if rng.random() < 0.5
                                  else [f"{lbl},{lbl}->" + rng.choice(["", lbl]), ["r", "calias"], ["r", x]], "sp": "mg"})
                else:
                    extra.append({"k": "call", "out": "ealias", "fn": rng.choice(["multiply", "add", "maximum", "add_sequence", "multiply_sequence"]),
                                  "a": [["r", x], ["r", "calias"]] if rng.random() < 0.5 else [["r", "calias"], ["r", x]], "sp": "mg"})
                extra.append({"k": "call", "out": "salias", "fn": "sum", "a": [["r", "ealias"]], "sp": "mg"})
                bw = prog[-1]
                body = prog[:pos] + extra + prog[pos:-1]
                body.append({"k": "call", "out": "Lalias", "fn": "add", "a": [["r", "salias"], ["r", "__Lsum"]], "sp": "mg"})
                prog = body[:-1] + [{"k": "call", "out": "__Lsum", "fn": "sum", "a": [["r", c["L"]]], "sp": "mg"}, body[-1],
                                    {"k": "backward", "tgt": "Lalias", "seed": None}]
                c = dict(c, L="Lalias")
        for st in prog:
            if st["k"] == "leaf" and st.get("kind") == "tensor" and st["out"].startswith("i"):
                continue    # an index / mask tensor: its values are part of the program's shape logic
            if st["k"] == "leaf" and st.get("kind") == "tensor":
                r = rng.random()
                if r < 0.15:
                    st["dtype"] = "int64"
                    st["data"] = [int(round(v * 2)) or 1 for v in st["data"]]
                    st["constant"] = rng.choice([None, None, True])
                else:
                    st["constant"] = rng.choice([None, None, True, False])
            elif st["k"] == "call" and rng.random() < 0.4 and st["fn"] not in ("getitem", "T", "flatten"):
                st.setdefault("kw", {})["constant"] = rng.choice([True, False, None])
                if st.get("sp") in ("op", "np"):
                    st["sp"] = "mg"
        if rng.random() < 0.3:
            # a second graph, alive at the same time, that shares only CONSTANT tensors with the first one and is back-propagated
            # after it: with plain arrays in their place the two graphs would be unrelated
            cl = [st for st in prog if (st["k"] == "leaf" and st.get("kind") == "tensor" and (st.get("constant") is True or st["dtype"] != "float64")
                                        and st.get("constant") is not False)
                  or (st["k"] == "call" and st.get("kw", {}).get("constant") is True)]
            if cl:
                bw = prog[-1]
                body = prog[:-1]
                for j, cst in enumerate(rng.sample(cl, min(len(cl), rng.randint(1, 2)))):
                    body.append({"k": "leaf", "out": f"g2y{j}", "kind": "tensor", "dtype": "float64", "shape": [], "data": [round(rng.uniform(0.5, 2.0), 3)],
                                 "constant": None, "layout": "C"})
                    # the shared constant is a DIRECT operand of an operation of the second graph, next to a non-constant tensor
                    body.append({"k": "call", "out": f"g2m{j}", "fn": rng.choice(["multiply", "add"]), "a": [["r", f"g2y{j}"], ["r", cst["out"]]]
                                 if rng.random() < 0.5 else [["r", cst["out"]], ["r", f"g2y{j}"]], "sp": "mg"})
                    body.append({"k": "call", "out": f"g2s{j}", "fn": "sum", "a": [["r", f"g2m{j}"]], "sp": "mg"})
                last = len([st for st in body if st.get("out", "").startswith("g2s")])
                body.append({"k": "call", "out": "L2", "fn": "add_sequence" if last > 1 else "positive", "a": [["r", f"g2s{j}"] for j in range(last)], "sp": "mg"})
                prog = body + [bw, {"k": "backward", "tgt": "L2", "seed": None}]
        return {"prog": prog, "L": c["L"], "lattice": False}
    return None


def graph_refs(st):
    """Names that enter the operation as (potentially differentiable) operands: the condition of `where` is an option, not an operand."""
    if st.get("k") == "call" and st.get("fn") == "where" and len(st.get("a", [])) == 3:
        st = dict(st, a=st["a"][1:])
    return mgrun.stmt_refs(st)


def mixed_flag_view_chain(n, prog, env, types):
    """Mechanism probe for the known finding: tensor n is a view (MyGrad reports a base) and, walking its defining view calls back to
    that base, the chain of family members carries BOTH flags (a constant tensor above a non-constant view or the reverse)."""
    t = env.get(n)
    if not mgrun.is_tensor(t) or t.base is None:
        return False
    flags_seen = {bool(t.constant)}
    cur, hops = n, 0
    while hops < 30:
        stc = next((q for q in prog if q.get("out") == cur and q["k"] == "call"), None)
        par = next((r for r in (mgrun.stmt_refs(stc) if stc else []) if types.get(r, ("", ""))[0] == "tensor"), None)
        pt = env.get(par) if par else None
        if pt is None or not (pt is t.base or pt.base is t.base):
            break
        flags_seen.add(bool(pt.constant))
        if pt is t.base:
            break
        cur, hops = par, hops + 1
    return len(flags_seen) == 2


def view_of_nonconstant_view_of_constant(n, prog, env, types):
    """Form B of the known finding, as a mechanism: tensor n is a view whose MyGrad base is CONSTANT while the tensor it was directly taken
    from is a NON-constant view of that memory.  MyGrad derives a view's gradient from its ultimate base only; with a constant base there
    is nothing to derive it from, so n reports its own received gradient (or None when it received none) instead of the view of its
    parent's gradient - which is what it reports when the constant base is a plain array and the parent therefore owns the memory.
    A non-constant view taken DIRECTLY of constant memory (the repaired case) has a constant parent and does not match."""
    t = env.get(n)
    if not mgrun.is_tensor(t) or t.base is None or not t.base.constant or t.constant:
        return False
    stc = next((q for q in prog if q.get("out") == n and q["k"] == "call"), None)
    par = next((r for r in (mgrun.stmt_refs(stc) if stc else []) if types.get(r, ("", ""))[0] == "tensor"), None)
    pt = env.get(par) if par else None
    return bool(mgrun.is_tensor(pt) and pt is not t.base and pt.base is t.base and not pt.constant)


def model_flags(prog, it_types, raised):
    """Reference model of the constant flag of every tensor-valued name. it_types: name -> ('tensor'|'array'|'other', dtype kind)."""
    flags, must_raise = {}, {}
    for i, st in enumerate(prog):
        if st["k"] == "leaf":
            if st.get("kind", "tensor") != "tensor":
                continue
            isf = np.dtype(st["dtype"]).kind == "f"
            c = st.get("constant")
            if not isf:
                must_raise[i] = c is False
                flags[st["out"]] = True
            else:
                must_raise[i] = False
                flags[st["out"]] = False if c is None else c
        elif st["k"] == "constof":
            if st["how"] != "data":
                flags[st["out"]] = True
        elif st["k"] == "call":
            refs = graph_refs(st)
            if any(r not in it_types for r in mgrun.stmt_refs(st)):
                continue
            if any(r not in it_types for r in refs):
                continue  # depends on a statement that raised
            ins = [flags.get(r, True) for r in refs if it_types[r][0] == "tensor"]
            kwc = st.get("kw", {}).get("constant")
            out = st["out"]
            if out not in it_types:
                # the call raised; was it obliged to?  (integer-valued result with constant=False)
                must_raise[i] = None
                continue
            kind, dk = it_types[out]
            if kind != "tensor":
                continue
            if dk != "f":
                flags[out] = True
                must_raise[i] = False
            else:
                flags[out] = all(ins) if kwc is None else kwc
                must_raise[i] = False
    return flags, must_raise


def run_prog(prog):
    REG.reset()
    it = Interp("mg")
    with np.errstate(all="ignore"):
        it.run(prog, catch=True)
    types = {}
    for n, v in it.env.items():
        if mgrun.is_tensor(v):
            types[n] = ("tensor", v.dtype.kind)
        elif isinstance(v, np.ndarray):
            types[n] = ("array", v.dtype.kind)
        else:
            types[n] = ("other", "")
    return it, types


def run_hist(case):
    prog = case["prog"]
    REG.reset()
    it = Interp("mg")
    flags, cnt, viol = {}, {"flag_checks": 0, "hist_inplace_stmts": 0}, []
    for i, st in enumerate(prog):
        try:
            it.exec(i, st)
        except Exception as e:
            return {"viol": [], "skip": f"history statement raised {type(e).__name__} (C04 judges)", "counters": cnt}
        if st["k"] in ("setitem", "aug", "uout", "setshape"):
            cnt["hist_inplace_stmts"] += 1
        for n, v in it.env.items():
            if not mgrun.is_tensor(v):
                continue
            cnt["flag_checks"] += 1
            if n not in flags:
                flags[n] = v.constant
            elif flags[n] != v.constant:
                viol.append({"monitor": "flags", "mech": "inplace-changes-constant-flag",
                             "msg": f"{n}.constant changed {flags[n]} -> {v.constant} at statement {i} ({st['k']} {st.get('fn', st.get('op', ''))} on {st.get('tgt')})"})
                return {"viol": viol, "counters": cnt, "sets": {"kinds": ["hist"]}, "sig": "hist:" + mgrun.struct_sig(prog)}
    # O-meta on histories: index TENSORS (integer / boolean tensors used inside get-item / set-item indices) replaced by plain arrays
    idx_leaves = {st["out"] for st in prog if st["k"] == "leaf" and st["out"].startswith("i") and st.get("kind") == "tensor"}
    if idx_leaves and prog and prog[-1]["k"] == "backward" and not viol:
        g1 = mgrun.snapshot_grads(it.env)
        p2 = [dict(st, kind="array") if (st["k"] == "leaf" and st["out"] in idx_leaves) else st for st in prog]
        REG.reset()
        it2 = Interp("mg")
        try:
            it2.run(p2, catch=False)
            g2 = mgrun.snapshot_grads(it2.env)
            for n, g in g1.items():
                if n in idx_leaves or n not in g2:
                    continue
                cnt["hist_meta_compared"] = cnt.get("hist_meta_compared", 0) + 1
                h = g2[n]
                if (g is None) != (h is None) or (g is not None and not np.array_equal(g, h, equal_nan=True)):
                    viol.append({"monitor": "O-meta", "mech": "index-tensor-vs-array",
                                 "msg": f"{n}.grad differs when index tensors {sorted(idx_leaves)} are passed as plain arrays: {None if g is None else g.ravel()[:3]} vs {None if h is None else h.ravel()[:3]}"})
                    break
        except Exception as e:
            viol.append({"monitor": "O-meta", "mech": f"index-array-variant-raises:{type(e).__name__}", "msg": f"with index arrays instead of index tensors: {type(e).__name__}: {e}"})
    return {"viol": viol, "counters": cnt, "sets": {"kinds": ["hist"]}, "sig": "hist:" + mgrun.struct_sig(prog), "nontrivial": cnt["hist_inplace_stmts"] >= 1}


def run_case(case):
    if case.get("hist"):
        return run_hist(case)
    prog = case["prog"]
    cnt, viol, sets = {"flag_checks": 0}, [], {}
    it, types = run_prog(prog)
    flags, must_raise = model_flags(prog, types, it.raised)
    # raises: leaf int/bool with constant=False must raise ValueError; integer-result call with constant=False must raise
    for i, st in enumerate(prog):
        r = it.raised.get(i)
        if st["k"] == "leaf" and st.get("kind", "tensor") == "tensor":
            want = must_raise.get(i, False)
            if want and r is None:
                viol.append({"monitor": "flags", "mech": "int-constant-false-accepted", "msg": f"leaf {st['out']} ({st['dtype']}, constant=False) was accepted"})
            elif not want and r is not None:
                viol.append({"monitor": "flags", "mech": "leaf-raises", "msg": f"leaf {st['out']} raised {type(r).__name__}: {r}"})
        elif st["k"] == "call" and r is not None:
            refs = mgrun.stmt_refs(st)
            if any(q not in types for q in refs):
                continue
            kwc = st.get("kw", {}).get("constant")
            # legitimate only if an integer-valued result was asked to be non-constant
            try:
                npres = OT.SPECS[st["fn"]].ref(*[Interp("np").dec(a) if not (isinstance(a, list) and a[:1] == ["r"]) else
                                               (it.env[a[1]].data if mgrun.is_tensor(it.env[a[1]]) else it.env[a[1]]) for a in st.get("a", [])])
                int_result = np.asarray(npres).dtype.kind != "f"
            except Exception:
                int_result = None
            nonfloat_in = any(types[q][0] == "tensor" and types[q][1] != "f" for q in refs)
            if kwc is False and int_result:
                cnt["int_result_constant_false_raises"] = cnt.get("int_result_constant_false_raises", 0) + 1
            elif kwc is False and nonfloat_in and isinstance(r, ValueError):
                # constant=False on a call that consumes integer/boolean tensors: composite functions forward the keyword to inner
                # integer-valued steps; whether that must be accepted is not settled by the statement - recorded, not judged
                cnt["call_raised_unjudged"] = cnt.get("call_raised_unjudged", 0) + 1
            elif int_result is None:
                cnt["call_raised_unjudged"] = cnt.get("call_raised_unjudged", 0) + 1
            else:
                viol.append({"monitor": "flags", "mech": f"call-raises:{st['fn']}:{type(r).__name__}", "msg": f"{st['fn']} {st.get('kw')} raised {type(r).__name__}: {r}"})
    nconst = nnon = 0
    for n, f in flags.items():
        t = it.env.get(n)
        if not mgrun.is_tensor(t):
            continue
        cnt["flag_checks"] += 1
        if t.constant != f:
            st = next(s for s in prog if s.get("out") == n)
            viol.append({"monitor": "flags", "mech": "flag-mismatch:" + ("leaf" if st["k"] == "leaf" else f"{st['fn']}:kw={st.get('kw', {}).get('constant')}"),
                         "msg": f"{n}.constant is {t.constant}, model says {f} ({st['k']} {st.get('fn', st.get('dtype'))} kw={st.get('kw')})"})
        if t.constant:
            nconst += 1
            if t.grad is not None:
                viol.append({"monitor": "const-grad", "mech": "constant-has-grad", "msg": f"constant tensor {n} holds a gradient"})
        else:
            nnon += 1
    grads = mgrun.snapshot_grads(it.env)
    for i, st in enumerate(prog):
        if st["k"] == "backward" and i in it.raised and st["tgt"] in it.env:
            viol.append({"monitor": "backward", "mech": f"backward-raises:{type(it.raised[i]).__name__}",
                         "msg": f"backward of {st['tgt']} (statement {i}) raised {type(it.raised[i]).__name__}: {it.raised[i]}"})
    reach_all = set()
    # M-path: a non-constant tensor holds a gradient after the backward passes exactly when some back-propagated tensor depends on it
    # through non-constant tensors only (a constant on the way neither receives nor transmits)
    if not it.raised or all(prog[i]["k"] != "backward" for i in it.raised):
        reach = {st["tgt"] for st in prog if st["k"] == "backward" and flags.get(st["tgt"]) is False}
        for st in reversed(prog):
            if st["k"] == "call" and st.get("out") in reach:
                for r in graph_refs(st):
                    if flags.get(r) is False and types.get(r, ("", ""))[0] == "tensor":
                        reach.add(r)
        reach_all = reach
        bw_first = min((i for i, st in enumerate(prog) if st["k"] == "backward"), default=len(prog))
        created = {st["out"]: i for i, st in enumerate(prog) if "out" in st}
        for n, f in flags.items():
            t = it.env.get(n)
            if f is not False or not mgrun.is_tensor(t) or t.constant or created.get(n, 0) > bw_first:
                continue
            cnt["path_checks"] = cnt.get("path_checks", 0) + 1
            if n not in reach and (t.base is not None or any(it.env.get(m) is t for m in reach)):
                continue    # a view outside the graph reports the corresponding view of its base's gradient (C06)
            if (n in reach) != (grads.get(n) is not None):
                # mechanism probe for the known finding: n is a view (MyGrad: base is a non-constant tensor) reached, walking the view
                # operations back towards that base, through a CONSTANT view
                # (form A of the known finding: a constant view sits BETWEEN the non-constant base and this non-constant view; a view taken
                #  directly of a constant base is the repaired case and stays a fresh violation)
                blocked = n in reach and not t.base.constant and mixed_flag_view_chain(n, prog, it.env, types) if t.base is not None else False
                viol.append({"monitor": "M-path", "mech": "nonconstant-without-grad" if n in reach else "grad-through-constant", "blocked_by_constant_view": blocked,
                             "msg": f"{n} (non-constant) " + ("is connected to a back-propagated tensor through non-constant tensors but holds no gradient"
                                                               if n in reach else "is connected only through constants (or not at all) yet holds a gradient")})
    # O-meta: constant leaf tensors -> plain arrays
    p2 = copy.deepcopy(prog)
    replaced = set()
    for st in p2:
        if st["k"] == "leaf" and st.get("kind", "tensor") == "tensor" and st["out"] in flags and flags[st["out"]] and st["out"] in it.env \
                and mgrun.is_tensor(it.env[st["out"]]):
            st["kind"] = "array"
            st["compact"] = not st.get("nocopy")
            st.pop("constant", None)
            replaced.add(st["out"])
    for j, st in enumerate(p2):
        if st["k"] == "constof" and st["out"] in it.env:
            v = it.env[st["out"]]
            a = np.array(v.data if mgrun.is_tensor(v) else v)
            p2[j] = {"k": "leaf", "out": st["out"], "kind": "array", "dtype": a.dtype.name, "shape": list(a.shape), "data": a.ravel().tolist(), "layout": "C"}
            replaced.add(st["out"])
    if replaced:
        vt = {}   # is the name bound to a Tensor in the variant program?
        for st in p2:
            if st["k"] == "leaf":
                vt[st["out"]] = st.get("kind", "tensor") == "tensor"
            elif st["k"] == "call":
                refs = mgrun.stmt_refs(st)
                anyt = any(vt.get(r, False) for r in refs)
                first = st["a"][0] if st.get("a") else None
                first_t = isinstance(first, list) and first[:1] == ["r"] and vt.get(first[1], False)
                if st.get("sp") == "meth" and not first_t:
                    st["sp"] = "mg"
                if st.get("sp") in ("np", "op") and not anyt:
                    st["sp"] = "mg"   # numpy itself would answer when no tensor is left among the operands
                vt[st["out"]] = anyt or (st.get("sp", "mg") == "mg" and st["fn"] not in ("getitem", "T", "flatten"))
        it2, types2 = run_prog(p2)
        g2 = mgrun.snapshot_grads(it2.env)
        for n, g in grads.items():
            if n in replaced or n not in g2:
                continue
            cnt["meta_compared"] = cnt.get("meta_compared", 0) + 1
            h = g2[n]
            same = (g is None) == (h is None) and (g is None or np.array_equal(g, h, equal_nan=True))
            if not same and g is not None and h is not None and n.startswith("g2") and g.shape == h.shape:
                # the second graph's leaf multiplies a shared constant of arbitrary provenance: its gradient is a SUM over that constant, whose
                # pairwise-summation order follows the memory layout (tensor-derived vs array-derived operand): last-bit differences are expected
                same = bool(np.allclose(g, h, rtol=1e-13, atol=1e-300, equal_nan=True))
            if not same:
                viol.append({"monitor": "O-meta", "mech": "constant-tensor-vs-array",
                             # (form B: a dangling view - outside every back-propagated graph - of a non-constant view of a constant base)
                             # or, more generally, any view of a non-constant view of constant memory, inside a graph or not)
                             "blocked_by_constant_view": (n not in reach_all and mixed_flag_view_chain(n, prog, it.env, types))
                             or view_of_nonconstant_view_of_constant(n, prog, it.env, types),
                             "msg": f"{n}.grad differs when constant tensors {sorted(replaced)} are passed as plain arrays: {None if g is None else g.ravel()[:3]} vs {None if h is None else h.ravel()[:3]}"})
    if any(st["k"] == "backward" and st["tgt"] == "L2" for st in prog):
        cnt["second_graph_backwards"] = 1
    if case.get("lattice"):
        cnt["lattice_cases"] = 1
    sets["kinds"] = ["lattice" if case.get("lattice") else "random"]
    sig = mgrun.struct_sig(prog) + repr(sorted(flags.items()))
    return {"viol": viol[:4], "counters": cnt, "sets": sets, "sig": sig, "nontrivial": nconst >= 1 and nnon >= 1}


def classify(v, case):
    m = v.get("mech") or v["monitor"]
    if m in ("nonconstant-without-grad", "constant-tensor-vs-array") and v.get("blocked_by_constant_view"):
        return "view-of-constant-view-reads-no-grad"
    return m


def witness_cases():
    L = lambda out, shape, data, c: {"k": "leaf", "out": out, "kind": "tensor", "dtype": "float64", "shape": shape, "data": data, "constant": c, "layout": "C"}
    return [{"lattice": False, "L": "L", "prog": [
        L("b", [2], [0.3, 2.0], None), L("w", [1, 2], [1.5, -0.5], None),
        {"k": "call", "out": "c", "fn": "reshape", "a": [["r", "b"], ["t", [2]]], "kw": {"constant": True}, "sp": "mg"},
        {"k": "call", "out": "v", "fn": "reshape", "a": [["r", "c"], ["t", [1, 2]]], "kw": {"constant": False}, "sp": "mg"},
        {"k": "call", "out": "m", "fn": "multiply", "a": [["r", "v"], ["r", "w"]], "sp": "mg"},
        {"k": "call", "out": "L", "fn": "sum", "a": [["r", "m"]], "sp": "mg"},
        {"k": "backward", "tgt": "L", "seed": None}]}]

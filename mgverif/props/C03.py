"""C03 — forward results agree with NumPy in value, shape and dtype (tracked and untracked)."""
import random
import numpy as np

from mgverif.hooks import REG
from mgverif.prog import Interp, enc_arr
from mgverif import mgrun, ops_table as OT
from mgverif.gen import build as B

PID = "C03"
LEVEL = "exploration"
RULE = ("seeded single calls of every function/method/operator with a NumPy namesake: (a) ufuncs (37 registered + abs/true_divide) on "
        "operands from the lattice {bool,int8,int32,int64,uint8,float16,float32,float64} x {tensor, ndarray, NumPy scalar, Python scalar} x "
        "{0-d, empty, broadcast, C/F/strided/negative-stride} with values including 0, -0, +-inf, NaN and options dtype=, out=ndarray, "
        "where=+out=; (b) reductions/cumulative/shape/transpose-like/joining/tiling/indexing/einsum/clip/where through mg.f, np.f "
        "(__array_function__/__array_ufunc__), Tensor methods and operators with axis/keepdims/ddof options. The identical call is made by "
        "NumPy on the underlying arrays; values (array_equal, NaN==NaN), shape and dtype must be identical, and identical again when the "
        "MyGrad call runs under no_autodiff. Calls NumPy itself rejects are skipped. Non-trivial: the NumPy call returned; distinct = "
        "(function, spelling, option keys, operand kinds and dtypes). (c) every fourth case: the NON-differentiable namesakes on the same "
        "operand lattice - boolean-valued ufuncs (isfinite/isinf/isnan/signbit/logical_*/equal/.../less_equal, optional out=), the six "
        "comparison operators, the rounding/modulo family (ceil/floor/rint/sign/trunc/floor_divide/fmod/remainder/divmod, // and its "
        "reflection; constant operands mostly, non-constant ones must be refused with ValueError), argmax/argmin/any as np.f, mg.f and "
        "methods with axis/keepdims, allclose/isclose/shares_memory/may_share_memory/result_type/shape/min_scalar_type, and the scalar "
        "conversions float()/int()/item()/len()/in/operator.index/tolist: same value, shape, dtype (or Python type) as NumPy on the "
        "arrays, never a Tensor, operands untouched, nothing recorded or locked; tracked and under no_autodiff.")
ASSUMPTIONS = ["NumPy 2.x value-based casting rules (NEP 50) on the same operands are the specification",
               "MyGrad raising where NumPy returns is recorded (mg_raises_only), judged by other properties"]
TIERS = {"quick": {"cases": 40000}, "thorough": {"cases": 1500000}}
FLOORS = {"quick": {"compared": 6000, "compared_untracked": 6000, "nondiff_compared": 5000, "nondiff_refused_nonconstant": 100},
          "thorough": {"compared": 30000, "compared_untracked": 30000, "nondiff_compared": 25000, "nondiff_refused_nonconstant": 500}}

DTYPES = ["bool", "int8", "int32", "int64", "uint8", "float16", "float32", "float64"]
SPECIALS = [0.0, -0.0, float("inf"), float("-inf"), float("nan"), 1.0, -1.0]
UF1 = sorted(n for n, s in OT.SPECS.items() if s.kind == "u1")
UF2 = sorted(n for n, s in OT.SPECS.items() if s.kind == "u2")
NON_UFUNC_GENS = [(B.g_reduce, 10), (B.g_cum, 3), (B.g_einsum, 4), (B.g_getitem, 6), (B.g_where, 3), (B.g_clip, 3), (B.g_shape, 10),
                  (B.g_join, 4), (B.g_repeat, 3), (B.g_matmul, 4), (B.g_norm, 2)]


def rand_operand_values(rng, shape, dtype):
    n = int(np.prod(shape, dtype=int))
    k = np.dtype(dtype).kind
    if k == "b":
        v = [rng.random() < 0.5 for _ in range(n)]
    elif k == "u":
        v = [rng.randint(0, 5) for _ in range(n)]
    elif k == "i":
        v = [rng.randint(-3, 3) for _ in range(n)]
    else:
        v = [rng.choice(SPECIALS) if rng.random() < 0.15 else round(rng.uniform(-3, 3), 3) for _ in range(n)]
    return np.array(v, dtype=dtype).reshape(shape)


def gen_ufunc_case(rng):
    b = B.Builder(rng)
    b.allow_empty = True
    b.allow_nonfinite = True
    unary = rng.random() < 0.4
    fn = rng.choice(UF1 + ["abs"]) if unary else rng.choice(UF2 + ["true_divide", "matmul"])
    spec = OT.SPECS[fn]
    r = rng.random()
    shape = () if r < 0.2 else B.rand_shape(rng, 3, 3, 0 if rng.random() < 0.1 else 1)
    if fn == "matmul":
        shape = (rng.randint(1, 3), rng.randint(1, 3))
    args, kinds = [], []
    nargs = 1 if unary else 2
    tpos = rng.randrange(nargs)  # at least one tensor
    for i in range(nargs):
        dtype = rng.choice(DTYPES)
        kind = "tensor" if i == tpos else rng.choice(["tensor", "array", "npscalar", "pyscalar", "array"])
        shp = shape if (i == tpos or rng.random() < 0.5) else B.bcast_variants(rng, shape)
        if fn == "matmul":
            shp = shape if i == 0 else (shape[1], rng.randint(1, 3))
            if kind in ("npscalar", "pyscalar"):
                kind = "array"
        vals = rand_operand_values(rng, shp if kind in ("tensor", "array") else (), dtype)
        if fn == "power" and i == 1 and kind in ("pyscalar", "npscalar") and np.dtype(dtype).kind in "fiu" and rng.random() < 0.6:
            # the ** operator has a dedicated route for the exponents 1 and 2 (Positive / Square)
            vals = np.array(rng.choice([1, 2]), dtype=dtype)
        if kind == "pyscalar":
            py = vals.item()
            name = b.name("p")
            st = {"k": "leaf", "out": name, "kind": "pyscalar", "dtype": dtype, "shape": [], "data": py}
            b.emit(st, check=False)
            b.meta[name] = {"tensor": False, "nonconst": False, "deps": set(), "leaf": True}
        elif kind == "npscalar":
            name = b.name("n")
            st = {"k": "leaf", "out": name, "kind": "npscalar", "dtype": dtype, "shape": [], "data": vals.item()}
            b.emit(st, check=False)
            b.meta[name] = {"tensor": False, "nonconst": False, "deps": set(), "leaf": True}
        else:
            name = b.leaf(shp, kind=kind, dtype=dtype, values=vals)
            if kind == "tensor" and rng.random() < 0.4:
                b.prog[-1]["nocopy"] = True
        args.append(B.R(name))
        kinds.append(f"{kind}:{dtype}")
    sp_opts = ["mg", "np"]
    if spec.opr:
        sp_opts += ["op", "op"]
    sp = rng.choice(sp_opts)
    kw = {}
    r = rng.random()
    if sp != "op" and r < 0.2:
        kw["dtype"] = ["dt", rng.choice(["float32", "float64", "float16"])]
    opt = None
    if sp != "op" and fn != "matmul" and rng.random() < 0.3:
        opt = rng.choice(["out", "out+where", "out_tensor", "out_tensor", "out_view", "out_view"])
    return {"prog": b.prog, "call": {"k": "call", "out": "res", "fn": fn, "sp": sp, "a": args, "kw": kw}, "opt": opt,
            "kinds": kinds, "mseed": rng.randrange(1 << 30)}


def gen_other_case(rng):
    OT.DOMAIN_CHECKS = False
    try:
        b = B.Builder(rng)
        b.allow_empty = rng.random() < 0.1
        b.allow_nonfinite = True
        b.npint_args = True
        shape = B.rand_shape(rng, 3, 3, 0 if b.allow_empty else 1)
        kinds = []
        for i in range(rng.randint(1, 2)):
            dtype = rng.choice(DTYPES)
            shp = shape if i == 0 else (shape if rng.random() < 0.5 else B.bcast_variants(rng, shape))
            vals = rand_operand_values(rng, shp, dtype)
            b.leaf(shp, dtype=dtype, values=vals)
            if rng.random() < 0.4:
                b.prog[-1]["nocopy"] = True
            kinds.append(f"tensor:{dtype}")
        n0 = len(b.prog)
        for _ in range(12):
            try:
                with np.errstate(all="ignore"):
                    out = B.random_node(b, NON_UFUNC_GENS)
            except Exception:
                out = None
            if out is not None:
                break
        else:
            return None
        call = b.prog[-1]
        if call["k"] != "call" or call.get("out") != out:
            return None
        return {"prog": b.prog[:-1], "call": call, "opt": None, "kinds": kinds, "mseed": 0}
    finally:
        OT.DOMAIN_CHECKS = True


def gen_case(rng, cfg, idx):
    for _ in range(10):
        if idx % 4 == 3:
            c = gen_nondiff_case(rng)
        else:
            c = gen_ufunc_case(rng) if rng.random() < 0.5 else gen_other_case(rng)
        if c is not None:
            return c
    return None


def _norm(x):
    if mgrun.is_tensor(x):
        return x.data
    return np.asarray(x)


def _run(backend, case, untracked=False, out_proto=None, mask=None, out_tensor=False):
    """Returns (result array, out array or None) or raises."""
    it = Interp(backend, use_npf=True)
    it.run(case["prog"], catch=False)
    call = dict(case["call"])
    kw = dict(call.get("kw", {}))
    call["kw"] = kw
    outarr = None
    if out_proto is not None:
        outarr = np.full(out_proto.shape, 7, dtype=out_proto.dtype)
        it.env["__out"] = outarr
        if out_tensor == "view":
            # the target is a layout-dependent VIEW (transpose + reshape) of a Fortran-ordered base: the write must land in the base
            n = outarr.size
            a = next((d for d in (3, 2, 5, 7) if n % d == 0 and n // d > 1), 1)
            fb = np.asfortranarray(np.full((a, n // a) if n else (1, 0), 7, dtype=outarr.dtype))
            if backend == "mg":
                import mygrad as _mg
                import contextlib
                with (_mg.no_autodiff if untracked else contextlib.nullcontext()):   # an untracked run builds its views untracked too
                    tb_ = _mg.tensor(fb, constant=None if fb.dtype.kind == "f" else True)
                    it.env["__base"] = tb_
                    it.env["__out"] = tb_.T.reshape(-1).reshape(outarr.shape)
            else:
                it.env["__base"] = fb
                it.env["__out"] = fb.T.reshape(-1).reshape(outarr.shape)
        elif out_tensor and backend == "mg":
            import mygrad as _mg
            it.env["__out"] = _mg.tensor(outarr, constant=None if outarr.dtype.kind == "f" else True)
        kw["out"] = ["r", "__out"]
        if mask is not None:
            it.env["__mask"] = mask.copy()
            kw["where"] = ["r", "__mask"]
    import mygrad as mg
    with np.errstate(all="ignore"):
        if untracked:
            with mg.no_autodiff:
                it.exec(len(case["prog"]), call)
        else:
            it.exec(len(case["prog"]), call)
    if out_tensor == "view" and out_proto is not None:
        bb = it.env["__base"]
        outarr = np.array(bb.data if backend == "mg" else bb)   # what ended up in the BASE
    elif out_tensor and backend == "mg" and out_proto is not None:
        outarr = it.env["__out"].data
    return it.env[call["out"]], outarr, it


def _strong_reference(case):
    """NumPy's result for the case's call with Python scalars (leaves of kind 'pyscalar' and literal int/float arguments) converted by
    np.asarray first, i.e. carrying their default dtype strongly."""
    it = Interp("np", use_npf=True)
    it.run(case["prog"], catch=False)
    for st in case["prog"]:
        if st["k"] == "leaf" and st.get("kind") == "pyscalar":
            it.env[st["out"]] = np.asarray(it.env[st["out"]])
    call = dict(case["call"])
    call["a"] = [["a", np.asarray(a).dtype.name, [], [a]] if isinstance(a, (int, float)) and not isinstance(a, bool) else a for a in call.get("a", [])]
    with np.errstate(all="ignore"):
        it.exec(len(case["prog"]), call)
    return np.asarray(it.env[call["out"]])


def compare(tag, got, want, viol, fn, case, cnt, key):
    g, w = _norm(got), np.asarray(want)
    cnt[key] = cnt.get(key, 0) + 1
    pys = any(k.startswith("pyscalar") for k in case["kinds"]) or any(isinstance(a, (int, float)) and not isinstance(a, bool)
                                                                     for a in case["call"].get("a", []))
    cast_close = False
    if pys and g.shape == w.shape:
        with np.errstate(all="ignore"):
            try:
                gc = g.astype(w.dtype)
                rt = 2e-2 if w.dtype == np.float16 else 1e-3
                cast_close = bool(np.array_equal(gc, w, equal_nan=True) or np.allclose(gc.astype(float), w.astype(float), rtol=rt, atol=rt, equal_nan=True))
            except Exception:
                cast_close = False
    pys = pys and cast_close
    if pys:
        # mechanism probe: the finding is that MyGrad types a Python scalar strongly (np.asarray(scalar)); NumPy's own result for the
        # call with every Python scalar replaced that way must then be exactly MyGrad's (dtype and values)
        try:
            strong = _strong_reference(case)
            pys = strong is not None and strong.dtype == g.dtype and strong.shape == g.shape and bool(
                np.array_equal(strong, g, equal_nan=True) or np.allclose(strong.astype(float), g.astype(float), rtol=1e-6, atol=0, equal_nan=True))
        except Exception:
            pys = False
    if g.dtype != w.dtype:
        viol.append({"monitor": "O-np", "mech": f"dtype:{fn}", "pyscalar": pys,
                     "msg": f"{tag} {fn} {case['call'].get('sp')} {case['kinds']}: dtype {g.dtype} but NumPy gives {w.dtype}"})
        return False
    if g.shape != w.shape:
        viol.append({"monitor": "O-np", "mech": f"shape:{fn}", "msg": f"{tag} {fn} {case['kinds']}: shape {g.shape} vs NumPy {w.shape}"})
        return False
    if not np.array_equal(g, w, equal_nan=True):
        viol.append({"monitor": "O-np", "mech": f"value:{fn}", "pyscalar": pys,
                     "msg": f"{tag} {fn} {case['call'].get('sp')} {case['kinds']}: values {g.ravel()[:5].tolist()} vs NumPy {w.ravel()[:5].tolist()}"})
        return False
    return True


def run_case(case):
    if "nd" in case:
        return run_nondiff(case)
    REG.reset()
    fn = case["call"]["fn"]
    cnt, viol, sets = {}, [], {}
    try:
        want, _, _ = _run("np", case)
    except Exception as e:
        return {"viol": [], "counters": {"np_raises": 1}, "skip": "numpy-rejects", "sets": {"np_raises": [f"{fn}:{type(e).__name__}"]}}
    want = np.asarray(want)
    try:
        got, _, it = _run("mg", case)
    except Exception as e:
        return {"viol": [], "counters": {"mg_raises_only": 1}, "skip": "mg-raises-only",
                "sets": {"mg_raises_only": [f"{fn}:{case['call'].get('sp')}:{type(e).__name__}:{','.join(case['kinds'])}"[:160]]}}
    if not (mgrun.is_tensor(got) or isinstance(got, np.ndarray) or np.isscalar(got)):
        return {"viol": [], "skip": "non-array result"}
    compare("tracked", got, want, viol, fn, case, cnt, "compared")
    try:
        got2, _, _ = _run("mg", case, untracked=True)
        if not viol:
            compare("no_autodiff", got2, want, viol, fn, case, cnt, "compared_untracked")
    except Exception as e:
        viol.append({"monitor": "O-np", "mech": f"untracked-raises:{fn}", "msg": f"{fn} raises under no_autodiff only: {type(e).__name__}: {e}"})
    if case.get("opt") and not viol:
        rng = random.Random(case["mseed"])
        mask = None
        if case["opt"] == "out+where":
            mask = np.array([rng.random() < 0.5 for _ in range(want.size)], dtype=bool).reshape(want.shape)
        try:
            w2, wout, _ = _run("np", case, out_proto=want, mask=mask, out_tensor="view" if case["opt"] == "out_view" else False)
        except Exception:
            w2 = None
        if w2 is not None:
            try:
                ot = "view" if case["opt"] == "out_view" else (case["opt"] == "out_tensor")
                g2, gout, _ = _run("mg", case, out_proto=want, mask=mask, out_tensor=ot)
                if case["opt"] == "out_view":   # and identically with tracking off
                    _, gout_u, _ = _run("mg", case, untracked=True, out_proto=want, mask=mask, out_tensor=ot)
                    compare("out=view (no_autodiff)", gout_u, wout, viol, fn, case, cnt, "compared_out")
                compare("out=", gout, wout, viol, fn, case, cnt, "compared_out")
                if not viol:
                    compare("out= result", g2, np.asarray(w2), viol, fn, case, cnt, "compared_out")
            except Exception as e:
                cnt["mg_raises_only"] = cnt.get("mg_raises_only", 0) + 1
                sets.setdefault("mg_raises_only", []).append(f"{fn}:out=:{type(e).__name__}")
    sets["fns"] = [fn + ":" + str(case["call"].get("sp"))]
    sets["operand_kinds"] = case["kinds"]
    sig = repr((fn, case["call"].get("sp"), tuple(sorted(case["call"].get("kw", {}))), case.get("opt"), tuple(case["kinds"])))
    return {"viol": viol[:2], "counters": cnt, "sets": sets, "sig": sig, "nontrivial": True}


def classify(v, case):
    m = v.get("mech") or v["monitor"]
    if v.get("pyscalar") and (m.startswith("dtype:") or m.startswith("value:")):
        return "pyscalar-strong-promotion"
    if v.get("pyscalar_strong") and m.startswith("nondiff-value:"):
        return "pyscalar-strong-comparison"
    return m


# ------------------------------------------------------------------------------------------------------------------
# Non-differentiable namesakes: boolean-valued ufuncs and comparison operators, the rounding/modulo family, arg-reductions,
# predicates, scalar conversions. They must return what NumPy returns on the underlying arrays - as plain NumPy objects.
import operator as _op_

ND_BOOL1 = ["isfinite", "isinf", "isnan", "logical_not", "signbit"]
ND_BOOL2 = ["equal", "not_equal", "greater", "greater_equal", "less", "less_equal", "logical_and", "logical_or", "logical_xor"]
ND_CONST1 = ["ceil", "floor", "rint", "sign", "trunc"]
ND_CONST2 = ["floor_divide", "fmod", "remainder", "mod", "divmod"]
ND_CMP_OPS = {"lt": _op_.lt, "le": _op_.le, "gt": _op_.gt, "ge": _op_.ge, "eq": _op_.eq, "ne": _op_.ne}
ND_ARGRED = ["argmax", "argmin", "any"]
ND_FUNCS2 = ["allclose", "isclose", "may_share_memory", "shares_memory", "result_type"]
ND_FUNCS1 = ["shape", "min_scalar_type"]
ND_CONV = ["float", "int", "item", "len", "contains", "index", "tolist_via_array"]


def gen_nondiff_case(rng):
    b = B.Builder(rng)
    b.allow_empty = True
    b.allow_nonfinite = True
    group = rng.choice(["bool1", "bool2", "bool2", "const1", "const2", "cmp", "cmp", "floordiv", "argred", "argred", "func2", "func1", "conv"])
    fn = {"bool1": ND_BOOL1, "bool2": ND_BOOL2, "const1": ND_CONST1, "const2": ND_CONST2, "cmp": sorted(ND_CMP_OPS), "floordiv": ["floordiv", "rfloordiv"],
          "argred": ND_ARGRED, "func2": ND_FUNCS2, "func1": ND_FUNCS1, "conv": ND_CONV}[group]
    fn = rng.choice(fn)
    nargs = 2 if group in ("bool2", "const2", "cmp", "floordiv", "func2") or fn == "contains" else 1
    r = rng.random()
    shape = () if r < 0.2 else B.rand_shape(rng, 3, 3, 0 if rng.random() < 0.1 else 1)
    if group == "conv" and fn in ("float", "int", "item", "index"):
        shape = rng.choice([(), (), (1,), (1, 1)])
    if fn == "len" and shape == ():
        shape = (2,)
    names, kinds = [], []
    tpos = rng.randrange(nargs)
    for i in range(nargs):
        dtype = rng.choice(DTYPES)
        if fn == "index":
            dtype = rng.choice(["int8", "int32", "int64", "uint8"])
            shape = ()
        kind = "tensor" if i == tpos else rng.choice(["tensor", "array", "npscalar", "pyscalar", "array"])
        if group == "floordiv":
            kind = "tensor" if i == 0 else rng.choice(["tensor", "array", "pyscalar"])
        shp = shape if (i == tpos or rng.random() < 0.5) else B.bcast_variants(rng, shape)
        if fn == "contains" and i == 1:
            kind, shp = "pyscalar", ()
        vals = rand_operand_values(rng, shp if kind in ("tensor", "array") else (), dtype)
        if group in ("const2", "floordiv") and i == 1 and np.dtype(dtype).kind in "iub":
            vals = np.where(vals == 0, 1, vals).astype(dtype)     # integer division by zero only produces warnings + garbage
        if kind in ("pyscalar", "npscalar"):
            name = b.name("p" if kind == "pyscalar" else "n")
            b.emit({"k": "leaf", "out": name, "kind": kind, "dtype": dtype, "shape": [], "data": vals.item()}, check=False)
            b.meta[name] = {"tensor": False, "nonconst": False, "deps": set(), "leaf": True}
        else:
            const = None
            if kind == "tensor" and np.dtype(dtype).kind == "f":
                # the rounding/modulo family must refuse non-constant tensors: mostly feed it constants, sometimes not
                const = True if (group in ("const1", "const2", "floordiv") and rng.random() < 0.8) else rng.choice([None, None, True])
            name = b.leaf(shp, kind=kind, dtype=dtype, values=vals, constant=const)
            if kind == "tensor" and rng.random() < 0.4:
                b.prog[-1]["nocopy"] = True
        names.append(name)
        kinds.append(f"{kind}:{dtype}")
    if group in ("cmp", "bool2", "func2") and nargs == 2 and rng.random() < 0.5:
        # a Python float next to a float16/float32 operand, equal to one of its elements once cast weakly (NEP 50) to that dtype
        ks = [k.split(":") for k in kinds]
        for i in (0, 1):
            j = 1 - i
            if ks[i][0] == "pyscalar" and ks[j][0] in ("tensor", "array") and ks[j][1] in ("float16", "float32"):
                sti = next(st for st in b.prog if st.get("out") == names[i])
                stj = next(st for st in b.prog if st.get("out") == names[j])
                v = round(rng.uniform(-3, 3), 3)
                if stj["data"]:
                    sti["data"] = v
                    sti["dtype"] = "float64"
                    stj["data"][rng.randrange(len(stj["data"]))] = float(np.dtype(ks[j][1]).type(v))
                    kinds[i] = "pyscalar:float64"
    route = rng.choice(["np", "mg"])
    kw = {}
    if group == "argred":
        route = rng.choice(["np", "mg", "meth"])
        if shape and rng.random() < 0.6:
            kw["axis"] = rng.randrange(-len(shape), len(shape))
            if rng.random() < 0.4 and fn == "any":   # (mg.argmax/argmin document (a, axis, out) only: keepdims= is not a supported option)
                kw["keepdims"] = True
        if fn == "any" and shape and rng.random() < 0.2:
            kw["axis"] = tuple(sorted(rng.sample(range(len(shape)), rng.randint(0, len(shape)))))
    if group in ("bool1", "bool2", "const1") and rng.random() < 0.15:
        kw["__out"] = True     # out= a fresh ndarray of the result's shape/dtype
    if fn == "isclose" and rng.random() < 0.5:
        kw["equal_nan"] = True
    return {"prog": b.prog, "nd": {"group": group, "fn": fn, "route": route, "args": names, "kw": kw}, "kinds": kinds, "mseed": 0}


def _nd_call(group, fn, route, args, kw, backend):
    """One call. backend 'np': every Tensor already replaced by its array."""
    import mygrad as mg
    kw = dict(kw)
    if group in ("bool1", "bool2", "const1", "const2", "func1", "func2"):
        f = getattr(mg if (route == "mg" and backend == "mg") else np, fn)
        return f(*args, **kw)
    if group == "cmp":
        return ND_CMP_OPS[fn](*args)
    if group == "floordiv":
        return args[0] // args[1] if fn == "floordiv" else args[1] // args[0]
    if group == "argred":
        if route == "meth":
            return getattr(args[0], fn)(**kw)
        return getattr(mg if (route == "mg" and backend == "mg") else np, fn)(args[0], **kw)
    if fn == "float":
        return float(args[0])
    if fn == "int":
        return int(args[0])
    if fn == "item":
        return args[0].item()
    if fn == "len":
        return len(args[0])
    if fn == "contains":
        return args[1] in args[0]
    if fn == "index":
        return _op_.index(args[0])
    if fn == "tolist_via_array":
        return np.asarray(args[0]).tolist()
    raise KeyError(fn)


def run_nondiff(case):
    import mygrad as mg
    import warnings
    REG.reset()
    nd = case["nd"]
    group, fn, route = nd["group"], nd["fn"], nd["route"]
    cnt, viol, sets = {}, [], {}
    tag = f"{fn}:{route}"

    def operands(backend):
        it = Interp(backend, use_npf=True)
        it.run(case["prog"], catch=False)
        return [it.env[n] for n in nd["args"]]

    def call(backend, untracked=False):
        args = operands(backend)
        kw = {k: v for k, v in nd["kw"].items() if k != "__out"}
        outarr = None
        if nd["kw"].get("__out"):
            proto = np.asarray(_nd_call(group, fn, "np", operands("np"), kw, "np"))
            outarr = np.full(proto.shape, 1, dtype=proto.dtype)
            kw["out"] = outarr
        with warnings.catch_warnings(), np.errstate(all="ignore"):
            warnings.simplefilter("ignore")
            if untracked:
                with mg.no_autodiff:
                    r = _nd_call(group, fn, route, args, kw, backend)
            else:
                r = _nd_call(group, fn, route, args, kw, backend)
        return r, args, outarr

    try:
        want, _, wout = call("np")
    except Exception as e:
        return {"viol": [], "counters": {"np_raises": 1}, "skip": "numpy-rejects", "sets": {"np_raises": [f"{tag}:{type(e).__name__}"]}}
    must_refuse = False
    margs = operands("mg")
    if group in ("const1", "const2", "floordiv"):
        must_refuse = any(mgrun.is_tensor(a) and not a.constant for a in margs)
    before = [np.array(a.data if mgrun.is_tensor(a) else a, copy=True) if isinstance(a, np.ndarray) or mgrun.is_tensor(a) else None for a in margs]
    del margs
    for untracked in (False, True):
        key = "nondiff_compared_untracked" if untracked else "nondiff_compared"
        try:
            got, gargs, gout = call("mg", untracked)
        except ValueError as e:
            if must_refuse:
                cnt["nondiff_refused_nonconstant"] = cnt.get("nondiff_refused_nonconstant", 0) + 1
                continue
            viol.append({"monitor": "O-np", "mech": f"nondiff-raises:{fn}", "msg": f"{tag} {case['kinds']} raised ValueError: {e} (NumPy returns; no non-constant operand)"})
            break
        except Exception as e:
            viol.append({"monitor": "O-np", "mech": f"nondiff-raises:{fn}", "msg": f"{tag} {case['kinds']}{' under no_autodiff' if untracked else ''} raised {type(e).__name__}: {e}"})
            break
        if must_refuse and not untracked:
            viol.append({"monitor": "refusal", "mech": f"nondiff-accepts-nonconstant:{fn}",
                         "msg": f"{tag} {case['kinds']} accepted a non-constant tensor (returned {type(got).__name__}) instead of raising"})
            break
        if must_refuse and untracked:
            cnt["nondiff_untracked_accepted"] = cnt.get("nondiff_untracked_accepted", 0) + 1
        gs = got if isinstance(got, tuple) else (got,)
        ws = want if isinstance(want, tuple) else (want,)
        if len(gs) != len(ws):
            viol.append({"monitor": "O-np", "mech": f"nondiff-arity:{fn}", "msg": f"{tag}: {len(gs)} results vs NumPy {len(ws)}"})
            break
        cnt[key] = cnt.get(key, 0) + 1
        for g, w in zip(gs, ws):
            if mgrun.is_tensor(g):
                viol.append({"monitor": "type", "mech": f"nondiff-returns-tensor:{fn}", "msg": f"{tag} {case['kinds']} returned a Tensor (constant={g.constant})"})
                break
            if isinstance(w, (np.ndarray, np.generic)) or isinstance(g, (np.ndarray, np.generic)):
                ga, wa = np.asarray(g), np.asarray(w)
                if ga.dtype != wa.dtype or ga.shape != wa.shape or not np.array_equal(ga, wa, equal_nan=ga.dtype.kind in "fc"):
                    strong = False
                    if any(k.startswith("pyscalar") for k in case["kinds"]):
                        # mechanism probe: NumPy's own answer when every Python scalar is first made a (strongly typed) 0-d array
                        try:
                            kw2 = {k: v for k, v in nd["kw"].items() if k != "__out"}
                            a2 = [np.asarray(a) if isinstance(a, (bool, int, float)) else a for a in operands("np")]
                            with warnings.catch_warnings(), np.errstate(all="ignore"):
                                warnings.simplefilter("ignore")
                                w2 = np.asarray(_nd_call(group, fn, "np", a2, kw2, "np"))
                            strong = ga.dtype == w2.dtype and ga.shape == w2.shape and np.array_equal(ga, w2, equal_nan=ga.dtype.kind in "fc")
                        except Exception:
                            strong = False
                    viol.append({"monitor": "O-np", "mech": f"nondiff-value:{fn}", "pyscalar_strong": strong,
                                 "msg": f"{tag} {case['kinds']} kw={nd['kw']}: {ga.dtype}{ga.shape} {ga.ravel()[:4].tolist()} vs NumPy {wa.dtype}{wa.shape} {wa.ravel()[:4].tolist()}"})
                    break
                if isinstance(w, np.generic) != isinstance(g, np.generic):
                    cnt["nondiff_scalar_vs_0d"] = cnt.get("nondiff_scalar_vs_0d", 0) + 1
            else:
                if isinstance(g, list) and isinstance(w, list):
                    same = np.array_equal(np.asarray(g, dtype=object if not g else None), np.asarray(w, dtype=object if not w else None), equal_nan=False) \
                        or repr(g) == repr(w)
                else:
                    same = (g == w) or (isinstance(g, float) and isinstance(w, float) and g != g and w != w)
                if type(g) is not type(w) or not same:
                    viol.append({"monitor": "O-np", "mech": f"nondiff-value:{fn}", "msg": f"{tag} {case['kinds']}: {g!r} ({type(g).__name__}) vs NumPy {w!r} ({type(w).__name__})"})
                    break
        if viol:
            break
        if gout is not None and not (gout.dtype == wout.dtype and np.array_equal(gout, wout, equal_nan=gout.dtype.kind in "fc")):
            viol.append({"monitor": "O-np", "mech": f"nondiff-out:{fn}", "msg": f"{tag}: out= array holds {gout.ravel()[:4].tolist()} vs NumPy {wout.ravel()[:4].tolist()}"})
            break
        # operands untouched, nothing recorded on them
        for a, b0 in zip(gargs, before):
            if b0 is None:
                continue
            cur = a.data if mgrun.is_tensor(a) else a
            if not np.array_equal(cur, b0, equal_nan=cur.dtype.kind in "fc"):
                viol.append({"monitor": "immut", "mech": f"nondiff-mutates-operand:{fn}", "msg": f"{tag} changed an operand"})
            if mgrun.is_tensor(a) and any(r() is not None for r in a._ops):
                viol.append({"monitor": "graph", "mech": f"nondiff-records-consumer:{fn}", "msg": f"{tag} left a recorded consumer on its operand"})
            if isinstance(cur, np.ndarray) and not cur.flags.writeable:
                viol.append({"monitor": "locks", "mech": f"nondiff-leaves-lock:{fn}", "msg": f"{tag} left an operand read-only"})
    sets["nondiff_fns"] = [tag]
    sets["operand_kinds"] = case["kinds"]
    sig = repr(("nd", fn, route, tuple(sorted(nd["kw"])), tuple(case["kinds"])))
    return {"viol": viol[:2], "counters": cnt, "sets": sets, "sig": sig, "nontrivial": True}

"""C03 — forward results agree with NumPy in value, shape and dtype (tracked and untracked)."""
import random
import numpy as np

from mgverif.hooks import REG
from mgverif.prog import Interp, enc_arr
from mgverif import mgrun, ops_table as OT
from mgverif.gen import build as B

PID = "C03"
LEVEL = "exploration"
RULE = ("seeded single calls of every function/method/operator with a NumPy namesake: (a) ufuncs (37 registered + abs/true_divide) on "
        "operands from the lattice {bool,int8,int32,int64,uint8,float16,float32,float64} x {tensor, ndarray, NumPy scalar, Python scalar} x "
        "{0-d, empty, broadcast, C/F/strided/negative-stride} with values including 0, -0, +-inf, NaN and options dtype=, out=ndarray, "
        "where=+out=; (b) reductions/cumulative/shape/transpose-like/joining/tiling/indexing/einsum/clip/where through mg.f, np.f "
        "(__array_function__/__array_ufunc__), Tensor methods and operators with axis/keepdims/ddof options. The identical call is made by "
        "NumPy on the underlying arrays; values (array_equal, NaN==NaN), shape and dtype must be identical, and identical again when the "
        "MyGrad call runs under no_autodiff. Calls NumPy itself rejects are skipped. Non-trivial: the NumPy call returned; distinct = "
        "(function, spelling, option keys, operand kinds and dtypes).")
ASSUMPTIONS = ["NumPy 2.x value-based casting rules (NEP 50) on the same operands are the specification",
               "MyGrad raising where NumPy returns is recorded (mg_raises_only), judged by other properties"]
TIERS = {"quick": {"cases": 40000}, "thorough": {"cases": 1500000}}
FLOORS = {"quick": {"compared": 6000, "compared_untracked": 6000},
          "thorough": {"compared": 30000, "compared_untracked": 30000}}

DTYPES = ["bool", "int8", "int32", "int64", "uint8", "float16", "float32", "float64"]
SPECIALS = [0.0, -0.0, float("inf"), float("-inf"), float("nan"), 1.0, -1.0]
UF1 = sorted(n for n, s in OT.SPECS.items() if s.kind == "u1")
UF2 = sorted(n for n, s in OT.SPECS.items() if s.kind == "u2")
NON_UFUNC_GENS = [(B.g_reduce, 10), (B.g_cum, 3), (B.g_einsum, 4), (B.g_getitem, 6), (B.g_where, 3), (B.g_clip, 3), (B.g_shape, 10),
                  (B.g_join, 4), (B.g_repeat, 3), (B.g_matmul, 4), (B.g_norm, 2)]


def rand_operand_values(rng, shape, dtype):
    n = int(np.prod(shape, dtype=int))
    k = np.dtype(dtype).kind
    if k == "b":
        v = [rng.random() < 0.5 for _ in range(n)]
    elif k == "u":
        v = [rng.randint(0, 5) for _ in range(n)]
    elif k == "i":
        v = [rng.randint(-3, 3) for _ in range(n)]
    else:
        v = [rng.choice(SPECIALS) if rng.random() < 0.15 else round(rng.uniform(-3, 3), 3) for _ in range(n)]
    return np.array(v, dtype=dtype).reshape(shape)


def gen_ufunc_case(rng):
    b = B.Builder(rng)
    b.allow_empty = True
    b.allow_nonfinite = True
    unary = rng.random() < 0.4
    fn = rng.choice(UF1 + ["abs"]) if unary else rng.choice(UF2 + ["true_divide", "matmul"])
    spec = OT.SPECS[fn]
    r = rng.random()
    shape = () if r < 0.2 else B.rand_shape(rng, 3, 3, 0 if rng.random() < 0.1 else 1)
    if fn == "matmul":
        shape = (rng.randint(1, 3), rng.randint(1, 3))
    args, kinds = [], []
    nargs = 1 if unary else 2
    tpos = rng.randrange(nargs)  # at least one tensor
    for i in range(nargs):
        dtype = rng.choice(DTYPES)
        kind = "tensor" if i == tpos else rng.choice(["tensor", "array", "npscalar", "pyscalar", "array"])
        shp = shape if (i == tpos or rng.random() < 0.5) else B.bcast_variants(rng, shape)
        if fn == "matmul":
            shp = shape if i == 0 else (shape[1], rng.randint(1, 3))
            if kind in ("npscalar", "pyscalar"):
                kind = "array"
        vals = rand_operand_values(rng, shp if kind in ("tensor", "array") else (), dtype)
        if kind == "pyscalar":
            py = vals.item()
            name = b.name("p")
            st = {"k": "leaf", "out": name, "kind": "pyscalar", "dtype": dtype, "shape": [], "data": py}
            b.emit(st, check=False)
            b.meta[name] = {"tensor": False, "nonconst": False, "deps": set(), "leaf": True}
        elif kind == "npscalar":
            name = b.name("n")
            st = {"k": "leaf", "out": name, "kind": "npscalar", "dtype": dtype, "shape": [], "data": vals.item()}
            b.emit(st, check=False)
            b.meta[name] = {"tensor": False, "nonconst": False, "deps": set(), "leaf": True}
        else:
            name = b.leaf(shp, kind=kind, dtype=dtype, values=vals)
            if kind == "tensor" and rng.random() < 0.4:
                b.prog[-1]["nocopy"] = True
        args.append(B.R(name))
        kinds.append(f"{kind}:{dtype}")
    sp_opts = ["mg", "np"]
    if spec.opr:
        sp_opts += ["op", "op"]
    sp = rng.choice(sp_opts)
    kw = {}
    r = rng.random()
    if sp != "op" and r < 0.2:
        kw["dtype"] = ["dt", rng.choice(["float32", "float64", "float16"])]
    opt = None
    if sp != "op" and fn != "matmul" and rng.random() < 0.3:
        opt = rng.choice(["out", "out+where", "out_tensor", "out_tensor", "out_view", "out_view"])
    return {"prog": b.prog, "call": {"k": "call", "out": "res", "fn": fn, "sp": sp, "a": args, "kw": kw}, "opt": opt,
            "kinds": kinds, "mseed": rng.randrange(1 << 30)}


def gen_other_case(rng):
    OT.DOMAIN_CHECKS = False
    try:
        b = B.Builder(rng)
        b.allow_empty = rng.random() < 0.1
        b.allow_nonfinite = True
        b.npint_args = True
        shape = B.rand_shape(rng, 3, 3, 0 if b.allow_empty else 1)
        kinds = []
        for i in range(rng.randint(1, 2)):
            dtype = rng.choice(DTYPES)
            shp = shape if i == 0 else (shape if rng.random() < 0.5 else B.bcast_variants(rng, shape))
            vals = rand_operand_values(rng, shp, dtype)
            b.leaf(shp, dtype=dtype, values=vals)
            if rng.random() < 0.4:
                b.prog[-1]["nocopy"] = True
            kinds.append(f"tensor:{dtype}")
        n0 = len(b.prog)
        for _ in range(12):
            try:
                with np.errstate(all="ignore"):
                    out = B.random_node(b, NON_UFUNC_GENS)
            except Exception:
                out = None
            if out is not None:
                break
        else:
            return None
        call = b.prog[-1]
        if call["k"] != "call" or call.get("out") != out:
            return None
        return {"prog": b.prog[:-1], "call": call, "opt": None, "kinds": kinds, "mseed": 0}
    finally:
        OT.DOMAIN_CHECKS = True


def gen_case(rng, cfg, idx):
    for _ in range(10):
        c = gen_ufunc_case(rng) if rng.random() < 0.5 else gen_other_case(rng)
        if c is not None:
            return c
    return None


def _norm(x):
    if mgrun.is_tensor(x):
        return x.data
    return np.asarray(x)


def _run(backend, case, untracked=False, out_proto=None, mask=None, out_tensor=False):
    """Returns (result array, out array or None) or raises."""
    it = Interp(backend, use_npf=True)
    it.run(case["prog"], catch=False)
    call = dict(case["call"])
    kw = dict(call.get("kw", {}))
    call["kw"] = kw
    outarr = None
    if out_proto is not None:
        outarr = np.full(out_proto.shape, 7, dtype=out_proto.dtype)
        it.env["__out"] = outarr
        if out_tensor == "view":
            # the target is a layout-dependent VIEW (transpose + reshape) of a Fortran-ordered base: the write must land in the base
            n = outarr.size
            a = next((d for d in (3, 2, 5, 7) if n % d == 0 and n // d > 1), 1)
            fb = np.asfortranarray(np.full((a, n // a) if n else (1, 0), 7, dtype=outarr.dtype))
            if backend == "mg":
                import mygrad as _mg
                import contextlib
                with (_mg.no_autodiff if untracked else contextlib.nullcontext()):   # an untracked run builds its views untracked too
                    tb_ = _mg.tensor(fb, constant=None if fb.dtype.kind == "f" else True)
                    it.env["__base"] = tb_
                    it.env["__out"] = tb_.T.reshape(-1).reshape(outarr.shape)
            else:
                it.env["__base"] = fb
                it.env["__out"] = fb.T.reshape(-1).reshape(outarr.shape)
        elif out_tensor and backend == "mg":
            import mygrad as _mg
            it.env["__out"] = _mg.tensor(outarr, constant=None if outarr.dtype.kind == "f" else True)
        kw["out"] = ["r", "__out"]
        if mask is not None:
            it.env["__mask"] = mask.copy()
            kw["where"] = ["r", "__mask"]
    import mygrad as mg
    with np.errstate(all="ignore"):
        if untracked:
            with mg.no_autodiff:
                it.exec(len(case["prog"]), call)
        else:
            it.exec(len(case["prog"]), call)
    if out_tensor == "view" and out_proto is not None:
        bb = it.env["__base"]
        outarr = np.array(bb.data if backend == "mg" else bb)   # what ended up in the BASE
    elif out_tensor and backend == "mg" and out_proto is not None:
        outarr = it.env["__out"].data
    return it.env[call["out"]], outarr, it


def compare(tag, got, want, viol, fn, case, cnt, key):
    g, w = _norm(got), np.asarray(want)
    cnt[key] = cnt.get(key, 0) + 1
    pys = any(k.startswith("pyscalar") for k in case["kinds"]) or any(isinstance(a, (int, float)) and not isinstance(a, bool)
                                                                     for a in case["call"].get("a", []))
    cast_close = False
    if pys and g.shape == w.shape:
        with np.errstate(all="ignore"):
            try:
                gc = g.astype(w.dtype)
                rt = 2e-2 if w.dtype == np.float16 else 1e-3
                cast_close = bool(np.array_equal(gc, w, equal_nan=True) or np.allclose(gc.astype(float), w.astype(float), rtol=rt, atol=rt, equal_nan=True))
            except Exception:
                cast_close = False
    pys = pys and cast_close
    if g.dtype != w.dtype:
        viol.append({"monitor": "O-np", "mech": f"dtype:{fn}", "pyscalar": pys,
                     "msg": f"{tag} {fn} {case['call'].get('sp')} {case['kinds']}: dtype {g.dtype} but NumPy gives {w.dtype}"})
        return False
    if g.shape != w.shape:
        viol.append({"monitor": "O-np", "mech": f"shape:{fn}", "msg": f"{tag} {fn} {case['kinds']}: shape {g.shape} vs NumPy {w.shape}"})
        return False
    if not np.array_equal(g, w, equal_nan=True):
        viol.append({"monitor": "O-np", "mech": f"value:{fn}", "pyscalar": pys,
                     "msg": f"{tag} {fn} {case['call'].get('sp')} {case['kinds']}: values {g.ravel()[:5].tolist()} vs NumPy {w.ravel()[:5].tolist()}"})
        return False
    return True


def run_case(case):
    REG.reset()
    fn = case["call"]["fn"]
    cnt, viol, sets = {}, [], {}
    try:
        want, _, _ = _run("np", case)
    except Exception as e:
        return {"viol": [], "counters": {"np_raises": 1}, "skip": "numpy-rejects", "sets": {"np_raises": [f"{fn}:{type(e).__name__}"]}}
    want = np.asarray(want)
    try:
        got, _, it = _run("mg", case)
    except Exception as e:
        return {"viol": [], "counters": {"mg_raises_only": 1}, "skip": "mg-raises-only",
                "sets": {"mg_raises_only": [f"{fn}:{case['call'].get('sp')}:{type(e).__name__}:{','.join(case['kinds'])}"[:160]]}}
    if not (mgrun.is_tensor(got) or isinstance(got, np.ndarray) or np.isscalar(got)):
        return {"viol": [], "skip": "non-array result"}
    compare("tracked", got, want, viol, fn, case, cnt, "compared")
    try:
        got2, _, _ = _run("mg", case, untracked=True)
        if not viol:
            compare("no_autodiff", got2, want, viol, fn, case, cnt, "compared_untracked")
    except Exception as e:
        viol.append({"monitor": "O-np", "mech": f"untracked-raises:{fn}", "msg": f"{fn} raises under no_autodiff only: {type(e).__name__}: {e}"})
    if case.get("opt") and not viol:
        rng = random.Random(case["mseed"])
        mask = None
        if case["opt"] == "out+where":
            mask = np.array([rng.random() < 0.5 for _ in range(want.size)], dtype=bool).reshape(want.shape)
        try:
            w2, wout, _ = _run("np", case, out_proto=want, mask=mask, out_tensor="view" if case["opt"] == "out_view" else False)
        except Exception:
            w2 = None
        if w2 is not None:
            try:
                ot = "view" if case["opt"] == "out_view" else (case["opt"] == "out_tensor")
                g2, gout, _ = _run("mg", case, out_proto=want, mask=mask, out_tensor=ot)
                if case["opt"] == "out_view":   # and identically with tracking off
                    _, gout_u, _ = _run("mg", case, untracked=True, out_proto=want, mask=mask, out_tensor=ot)
                    compare("out=view (no_autodiff)", gout_u, wout, viol, fn, case, cnt, "compared_out")
                compare("out=", gout, wout, viol, fn, case, cnt, "compared_out")
                if not viol:
                    compare("out= result", g2, np.asarray(w2), viol, fn, case, cnt, "compared_out")
            except Exception as e:
                cnt["mg_raises_only"] = cnt.get("mg_raises_only", 0) + 1
                sets.setdefault("mg_raises_only", []).append(f"{fn}:out=:{type(e).__name__}")
    sets["fns"] = [fn + ":" + str(case["call"].get("sp"))]
    sets["operand_kinds"] = case["kinds"]
    sig = repr((fn, case["call"].get("sp"), tuple(sorted(case["call"].get("kw", {}))), case.get("opt"), tuple(case["kinds"])))
    return {"viol": viol[:2], "counters": cnt, "sets": sets, "sig": sig, "nontrivial": True}


def classify(v, case):
    m = v.get("mech") or v["monitor"]
    if v.get("pyscalar") and (m.startswith("dtype:") or m.startswith("value:")):
        return "pyscalar-strong-promotion"
    return m

"""C15 — no_autodiff / mem-guard switches are scoped, exception-safe, value-preserving."""
import itertools
import random
import numpy as np

from mgverif.hooks import REG

PID = "C15"
LEVEL = "fault_enumeration"
EXHAUSTIVE = False
RULE = ("(enumerated completely in both tiers) every chain nesting of depth 1..4 over the three managers {no_autodiff, mem_guard_off, "
        "mem_guard_on} x two forms {with-block, decorator} x every exception placement (no exception, or a user exception raised at the innermost "
        "level and caught after unwinding j = 1..depth levels; the exception an Exception or a BaseException, which is what KeyboardInterrupt / "
        "SystemExit look like): 13374 scope programs; (random) seeded scope TREES up to depth 12 with branching, "
        "re-entrant use of the same manager, recursive decorated functions, no_autodiff(f, to_numpy=True), exceptions raised at any depth and "
        "caught at any shallower depth, and turn_memory_guarding_on/off calls inside and outside scopes. M-ctx: a shadow stack predicts "
        "(TRACK_GRAPH, MEM_GUARD) after every enter, before and after every exit and after every turn_* call; the real switches must equal it, "
        "and be back to the defaults at the end. At every level where tracking is off a probe workload checks the no_autodiff contract: results "
        "have no creator and no base (also for view ops), inputs gain no consumers and keep their gradient, no array gets locked, in-place "
        "updates write straight into the tensor's own memory (same array object, visible through a NumPy view), backward() writes nothing, and "
        "values/dtypes equal the tracked run; each probe also replays one entry of a 71-call catalogue (mixed-precision batchnorm / conv_nd / "
        "softmax / losses / matmul / einsum / reductions / power / where / joins over float16-float32-float64-int8 operand mixes; every nnet "
        "activation on inputs with infinities, zeros of both signs, negative, boolean and int8 data) and demands the tracked call's dtype and "
        "bit-identical values (the sign of a zero included). Non-trivial: depth>=2 or an exception; distinct = scope-tree signature.")
ASSUMPTIONS = ["only LIFO nestings (contexts/decorators); generator-suspended scopes are not nestings",
               "turn_memory_guarding_* inside a scope sets the current value and the scope restores its saved value on exit"]
N_CHAIN = sum(6 ** L * (1 + 2 * L) for L in range(1, 5))
TIERS = {"quick": {"cases": N_CHAIN + 12000}, "thorough": {"cases": N_CHAIN + 600000}}
FLOORS = {"quick": {"state_checks": 60000, "noautodiff_probes": 8000, "catalogue_compared": 8000, "chain_cases": N_CHAIN},
          "thorough": {"state_checks": 300000, "noautodiff_probes": 40000, "catalogue_compared": 40000, "chain_cases": N_CHAIN}}
MGRS = ["no_autodiff", "mem_guard_off", "mem_guard_on"]
FORMS = ["with", "deco"]


def chain_cases():
    for L in range(1, 5):
        for combo in itertools.product(itertools.product(MGRS, FORMS), repeat=L):
            for exc in range(0, 2 * L + 1):   # 0: none; j <= L: an Exception raised innermost, caught after unwinding j levels; L + j: a BaseException
                yield combo, exc


_CHAINS = None


def gen_case(rng, cfg, idx):
    global _CHAINS
    if idx < N_CHAIN:
        if _CHAINS is None:
            _CHAINS = list(chain_cases())
        combo, exc = _CHAINS[idx]
        node = None
        L = len(combo)
        base_exc = exc > L
        if base_exc:
            exc -= L
        for d in range(L - 1, -1, -1):
            m, f = combo[d]
            n = {"m": m, "form": f, "children": [node] if node else [], "raise": (d == L - 1 and exc > 0) and ("base" if base_exc else True), "catch": False, "acts": ["probe"]}
            node = n
        # catching level: the exception unwinds `exc` levels: the try/except sits around the node at depth L-exc
        root = {"m": None, "children": [node], "catch": False, "acts": []}
        if exc > 0:
            cur, depth = root, 0
            while depth < L - exc:
                cur = cur["children"][0]
                depth += 1
            cur["catch"] = True
        return {"tree": root, "chain": True}
    def tree(depth, maxd):
        n = {"m": rng.choice(MGRS), "form": rng.choice(["with", "deco", "deco", "deco_np", "rec"]), "children": [], "raise": (rng.random() < 0.15) and rng.choice([True, True, "base"]),
             "catch": rng.random() < 0.3, "acts": [rng.choice(["probe", "probe", "turn_on", "turn_off", "none"]) for _ in range(rng.randint(0, 2))]}
        if n["form"] == "deco_np" and n["m"] != "no_autodiff":
            n["form"] = "deco"
        if depth < maxd:
            for _ in range(rng.choice([0, 1, 1, 1, 2])):
                n["children"].append(tree(depth + 1, maxd))
        return n
    root = {"m": None, "children": [tree(1, rng.randint(2, 12)) for _ in range(rng.randint(1, 3))], "catch": True,
            "acts": [rng.choice(["turn_off", "turn_on", "none"])]}
    return {"tree": root, "chain": False}


class UserErr(Exception):
    pass


class UserBaseErr(BaseException):
    """what KeyboardInterrupt / SystemExit / a cancelled task look like to the scopes: not an Exception subclass"""


_CATALOGUE = None


def catalogue(mg):
    """Mixed-precision calls (the same-precision catalogue is swept by C03 and C16): (name, thunk building fresh operands, tracked dtype, tracked
    values).  Built once per process, under tracking."""
    global _CATALOGUE
    if _CATALOGUE is not None:
        return _CATALOGUE
    from mygrad.nnet.layers import batchnorm, conv_nd, max_pool
    from mygrad.nnet.activations import softmax, logsoftmax
    from mygrad.nnet.losses import softmax_crossentropy
    rng = np.random.default_rng(15)
    x64 = rng.normal(size=(4, 3, 2))
    x32, x16 = x64.astype(np.float32), x64.astype(np.float16)
    g64, b64 = rng.uniform(0.5, 2, size=3), rng.normal(size=3)
    g32 = g64.astype(np.float32)
    img = rng.normal(size=(2, 3, 6)).astype(np.float32)
    w64 = rng.normal(size=(2, 3, 2))
    lab = np.array([0, 2, 1, 1])
    m32, m64 = rng.normal(size=(3, 4)).astype(np.float32), rng.normal(size=(4, 2))
    i8 = np.arange(6, dtype=np.int8).reshape(2, 3)
    T = mg.tensor
    ents = [
        ("batchnorm(x f32, gamma f64, beta f64)", lambda: batchnorm(T(x32), gamma=T(g64), beta=T(b64), eps=1e-8)),
        ("batchnorm(x f32 array, gamma f64 array)", lambda: batchnorm(x32, gamma=g64, beta=None, eps=1e-8)),
        ("batchnorm(x f32, beta f64)", lambda: batchnorm(T(x32), gamma=None, beta=b64, eps=1e-8)),
        ("batchnorm(x f16, gamma f32)", lambda: batchnorm(T(x16), gamma=T(g32), beta=None, eps=1e-3)),
        ("batchnorm(x f64, gamma f32)", lambda: batchnorm(T(x64), gamma=T(g32), beta=T(b64), eps=1e-8)),
        ("softmax(f32)", lambda: softmax(T(x32[:, :, 0]))),
        ("logsoftmax(f16)", lambda: logsoftmax(T(x16[:, :, 0]))),
        ("softmax_crossentropy(f32)", lambda: softmax_crossentropy(T(x32[:, :, 0]), lab)),
        ("conv_nd(x f32, w f64)", lambda: conv_nd(T(img), T(w64), stride=2)),
        ("conv_nd(x f32, w f64 constant)", lambda: conv_nd(T(img), w64, stride=1, padding=1)),
        ("max_pool(f32)", lambda: max_pool(T(img), (2,), 2)),
        ("matmul(f32, f64)", lambda: mg.matmul(T(m32), T(m64))),
        ("einsum(f32, f64)", lambda: mg.einsum("ij,jk->ik", T(m32), m64)),
        ("f32 tensor + python float", lambda: T(m32) + 0.1),
        ("int8 tensor * f32 array", lambda: T(i8) * m32[:2, :3]),
        ("int8 tensor / int8 tensor", lambda: T(i8) / T(i8 + 1)),
        ("mean(int8)", lambda: mg.mean(T(i8), axis=0)),
        ("sum(f16)", lambda: mg.sum(T(x16))),
        ("var(f32)", lambda: mg.var(T(x32), axis=1)),
        ("std(f16, ddof=1)", lambda: mg.std(T(x16), axis=0, ddof=1)),
        ("where(mask, f32, f64)", lambda: mg.where(m32 > 0, T(m32), T(rng_like(m32)))),
        ("f32 ** 2", lambda: T(m32) ** 2),
        ("f32 ** 0.5 (python float)", lambda: mg.abs(T(m32)) ** 0.5),
        ("f16 ** f64 tensor", lambda: mg.abs(T(x16)) ** T(np.float64(1.5))),
        ("sqrt(int8)", lambda: mg.sqrt(T(i8))),
        ("add(f32, f32, dtype=f64)", lambda: mg.add(T(m32), m32, dtype=np.float64)),
        ("clip(f32, python floats)", lambda: mg.clip(T(m32), -0.5, 0.5)),
        ("maximum(f32, f64 0-d)", lambda: mg.maximum(T(m32), np.float64(0.25))),
        ("stack(f32, f64)", lambda: mg.stack([T(m32), T(m32.astype(np.float64))])),
        ("concatenate(f16, f32)", lambda: mg.concatenate([T(x16), T(x32)], axis=0)),
        ("astype-free view chain f32[...,0].T @ f64", lambda: T(x32)[..., 0].T @ T(x64[..., 1])),
    ]
    # activations on inputs with negative entries, zeros of both signs, infinities and non-float dtypes (results compared bit for bit, the sign of
    # a zero included)
    from mygrad.nnet import activations as A
    special = np.array([-np.inf, -2.5, -0.0, 0.0, 0.5, 3.0, np.inf])
    acts = [("relu", {}), ("leaky_relu", {"slope": 0.1}), ("elu", {"alpha": 1.5}), ("selu", {}), ("sigmoid", {}), ("tanh", {}), ("hard_tanh", {}),
            ("soft_sign", {}), ("softmax", {}), ("logsoftmax", {}), ("glu", {})]
    for an, kw in acts:
        f = getattr(A, an, None)
        if f is None:
            continue
        for tag, arr in (("special f64", special), ("negatives f32", -np.abs(m32[0])), ("bool", np.array([True, False, True, False])), ("int8", i8[1] - 3)):
            def th(f=f, arr=arr, kw=kw):
                return f(T(arr), **kw)
            try:
                with np.errstate(all="ignore"):
                    th().clear_graph()
            except Exception:
                continue      # (not an input this activation accepts with tracking on)
            ents.append((f"{an}({tag})", th))
    out = []
    for name, thunk in ents:
        with np.errstate(all="ignore"):
            r = thunk()
        out.append((name, thunk, r.dtype, np.array(r.data, copy=True)))
        r.clear_graph()
        del r
    _CATALOGUE = out
    return out


def rng_like(a):
    return np.linspace(-1.0, 1.0, a.size).reshape(a.shape)


class Runner:
    def __init__(self):
        import mygrad as mg
        from mygrad._utils import graph_tracking as gt, lock_management as lm
        self.mg, self.gt, self.lm = mg, gt, lm
        self.model = [True, True]   # (TRACK, MEM)
        self.viol, self.cnt = [], {"state_checks": 0, "noautodiff_probes": 0, "scopes_entered": 0, "exceptions_unwound": 0}
        self.maxdepth = 0

    def actual(self):
        return [self.gt.TRACK_GRAPH, self.lm.MEM_GUARD]

    def check(self, where):
        self.cnt["state_checks"] += 1
        a = self.actual()
        if a != self.model or self.mg.mem_guard_active() != self.model[1]:
            self.viol.append({"monitor": "M-ctx", "mech": "switch-state-differs", "msg": f"{where}: (TRACK_GRAPH, MEM_GUARD) = {a}, stack discipline predicts {self.model}"})
            return False
        return True

    def probe(self, where):
        mg = self.mg
        if self.model[0]:
            return
        self.cnt["noautodiff_probes"] += 1
        x = self.x
        g0 = x.grad
        nops = sum(1 for r in x._ops if r() is not None)
        w0 = x.data.flags.writeable
        arr = np.arange(3.0)
        y = x * 2.0 + arr
        v = x[:2]
        r = mg.reshape(x, (3, 1))
        bad = []
        if y.creator is not None or v.creator is not None:
            bad.append("result has a creator")
        if v.base is not None or r.base is not None:
            bad.append("view result has a base")
        if sum(1 for q in x._ops if q() is not None) != nops:
            bad.append("input gained a consumer")
        if x.grad is not g0:
            bad.append("input lost / changed its gradient")
        if x.data.flags.writeable != w0 or not arr.flags.writeable:
            bad.append("an array was locked")
        if not np.array_equal(y.data, x.data * 2.0 + arr) or y.dtype != np.float64:
            bad.append("value/dtype differs from the tracked computation")
        t = mg.tensor([1.0, 2.0, 3.0])
        d = t.data
        view = d[:]
        t[1:] = 7.0
        t *= 2.0
        np.add(t, 1.0, out=t)
        if t.data is not d or not np.array_equal(view, [3.0, 15.0, 15.0]) or t.creator is not None:
            bad.append("in-place update did not write straight into the tensor's own memory")
        z = mg.tensor([1.0, 2.0])
        q = (z * 3.0)
        q.backward()
        if z.grad is not None or q.grad is not None:
            bad.append("backward() did something")
        # backward() on tensors of a graph that was recorded OUTSIDE the scope (a non-constant and a constant one) does nothing either
        gy, gc_ = self.gy, self.gc
        cr = (gy.creator, gc_.creator)
        wl = self.gx.data.flags.writeable
        gc_.backward()
        gy.backward()
        if gy.creator is not cr[0] or gc_.creator is not cr[1] or self.gx.grad is not None or self.gx.data.flags.writeable != wl:
            bad.append("backward() inside no_autodiff touched a graph recorded outside the scope")
        # an operation that FAILS inside the scope touches no lock it does not hold: the arrays of the graph recorded outside stay as they are
        for bad_call in (lambda: mg.add(self.gx, np.ones((7, 5, 3))), lambda: mg.multiply(self.gy, np.ones((7, 5, 3))),
                         lambda: self.gx.__setitem__((9, 9, 9), 1.0), lambda: mg.add(self.gx, 1.0, dtype=np.complex64)):
            try:
                bad_call()
            except Exception:
                pass
        if self.gx.data.flags.writeable != wl or self.gy.data.flags.writeable != self.gy_wl:
            bad.append("a failing operation inside no_autodiff changed the writeability of arrays locked by a graph recorded outside")
        # reading a not-yet-computed view gradient (derived lazily from the base's) must not disturb the switches
        if self.fresh_views:
            v = self.fresh_views.pop()
            if v.grad is None:
                bad.append("a view of a tensor holding a gradient read grad None under no_autodiff")
            self.check(where + " after reading a lazily derived view gradient")
        # operands keep their gradient AND their place in the view family: a released view used as an operand stays what it was
        vr, xb = self.vr, self.xb
        gv = vr.grad
        yv = vr * 2.0 + mg.sum(vr) + vr[::-1]
        if vr.base is not xb or vr.grad is None or not np.array_equal(vr.grad, [5.0, 5.0]) or not np.shares_memory(vr.grad, xb.grad) \
                or not np.array_equal(xb.grad, [5.0, 5.0, 2.0]):
            bad.append("a released view used as an operand lost its base / its gradient changed")
        del yv, gv
        # .shape assignment is NumPy's in-place reshape of the tensor's own memory: same array object afterwards, and rejected (not
        # silently copied) where the memory layout does not allow it
        tb_ = mg.tensor(np.arange(6.0).reshape(2, 3))
        tv = tb_.T                       # non-contiguous view data
        d0 = tv.data
        try:
            tv.shape = (6,)
            bad.append("shape assignment that needs a copy was accepted under no_autodiff")
        except AttributeError:
            pass
        except Exception as e:
            bad.append(f"incompatible shape assignment raised {type(e).__name__} instead of AttributeError")
        if tv.data is not d0 or tv.shape != (3, 2):
            bad.append("a refused shape assignment replaced the tensor's array")
        tc = mg.tensor(np.arange(6.0))
        d1 = tc.data
        tc.shape = (2, 3)
        if tc.data is not d1 or tc.shape != (2, 3) or tc.creator is not None:
            bad.append("shape assignment did not reshape the tensor's own array in place")
        # one mixed-precision entry of the catalogue per probe: same dtype and bit-identical values as the tracked call, nothing recorded
        cat = self.cat
        if cat:
            name, thunk, dt, val = cat[self.cnt["noautodiff_probes"] % len(cat)]
            self.cnt["catalogue_compared"] = self.cnt.get("catalogue_compared", 0) + 1
            try:
                with np.errstate(all="ignore"):
                    r = thunk()
                if r.dtype != dt:
                    bad.append(f"dtype differs from the tracked computation: {name}: {r.dtype} vs tracked {dt}")
                elif not np.array_equal(r.data, val, equal_nan=True) or np.ascontiguousarray(r.data).tobytes() != np.ascontiguousarray(val).tobytes():
                    bad.append(f"value differs from the tracked computation (bit for bit): {name}")
                if r.creator is not None or r.base is not None:
                    bad.append(f"result has a creator/base: {name}")
            except Exception as e:
                bad.append(f"raises under no_autodiff only: {name}: {type(e).__name__}")
        for b in bad:
            self.viol.append({"monitor": "no_autodiff", "mech": "no_autodiff:" + b, "msg": f"{where}: {b}"})

    def act(self, a, where):
        if a == "probe":
            self.probe(where)
        elif a == "turn_on":
            self.mg.turn_memory_guarding_on()
            self.model[1] = True
            self.check(where + " after turn_memory_guarding_on()")
        elif a == "turn_off":
            self.mg.turn_memory_guarding_off()
            self.model[1] = False
            self.check(where + " after turn_memory_guarding_off()")

    def run_children(self, node, depth, where):
        for i, c in enumerate(node["children"]):
            if c is not None:
                self.run_node(c, depth + 1, f"{where}/{i}")

    def run_node(self, node, depth, where):
        self.maxdepth = max(self.maxdepth, depth)
        if node.get("catch"):
            try:
                self._run_node(node, depth, where)
            except (UserErr, UserBaseErr):
                self.cnt["exceptions_unwound"] += 1
                self.check(where + " after catching the exception")
        else:
            self._run_node(node, depth, where)

    def _run_node(self, node, depth, where):
        m = node["m"]
        if m is None:
            for a in node.get("acts", []):
                self.act(a, where)
            self.run_children(node, depth, where)
            return
        mgr = getattr(self.mg, m)
        idx = 0 if m == "no_autodiff" else 1
        val = {"no_autodiff": False, "mem_guard_off": False, "mem_guard_on": True}[m]
        saved = self.model[idx]
        me = self

        def body(level=0):
            me.cnt["scopes_entered"] += 1
            me.model[idx] = val
            me.check(f"{where} inside {m} ({node['form']})")
            for a in node.get("acts", []):
                me.act(a, where)
            me.run_children(node, depth, where)
            me.check(f"{where} before leaving {m}")
            if node.get("raise"):
                if node["raise"] == "base":
                    me.cnt["base_exceptions_raised"] = me.cnt.get("base_exceptions_raised", 0) + 1
                    raise UserBaseErr()
                raise UserErr()
            return np.float64(1.0) if node["form"] != "deco_np" else me.mg.tensor([1.0])

        try:
            if node["form"] == "with":
                with mgr:
                    body()
            elif node["form"] == "deco":
                mgr(body)()
            elif node["form"] == "deco_np":
                out = mgr(body, to_numpy=True)()
                if not isinstance(out, np.ndarray):
                    self.viol.append({"monitor": "M-ctx", "mech": "to_numpy-not-array", "msg": f"{where}: no_autodiff(f, to_numpy=True) returned {type(out).__name__}"})
            else:  # recursive decorated function: the same manager re-entered twice through one decorated callable
                def rec(n):
                    if n == 0:
                        return body()
                    me.model[idx] = val
                    r = deco(n - 1)
                    me.model[idx] = val
                    me.check(f"{where} back in outer recursion level of {m}")
                    return r
                deco = mgr(rec)
                deco(1)
        finally:
            self.model[idx] = saved
        self.check(f"{where} after leaving {m}")


def sig_of(node):
    if node is None:
        return ""
    return f"{(node.get('m') or 'root')[:3]}{node.get('form', '')[:1]}{('B' if node.get('raise') == 'base' else '!') if node.get('raise') else ''}{'c' if node.get('catch') else ''}" \
           f"{''.join(a[0] + a[-1] for a in node.get('acts', []))}({','.join(sig_of(c) for c in node['children'])})"


def run_case(case):
    import mygrad as mg
    from mygrad._utils import graph_tracking as gt, lock_management as lm
    REG.reset()
    r = Runner()
    r.cat = catalogue(mg)
    x = mg.tensor([1.0, 2.0, 3.0])
    (x * x).sum().backward()
    r.x = x
    r.fresh_views = [x[:2] for _ in range(12)]          # views taken under tracking whose gradient has not been read yet
    # a view that took part in a graph which a backward pass has since cleared: it still reports its base and the view of the base's gradient
    r.xb = mg.tensor([1.0, 2.0, 3.0])
    r.vr = r.xb[:2]
    ((r.vr * 3.0).sum() + (r.xb * 2.0).sum()).backward()
    r.gx = mg.tensor([1.0, 2.0])
    r.gy = r.gx * 2.0                                    # a live graph recorded outside every scope
    r.gc = mg.multiply(r.gy, 3.0, constant=True)
    r.gy_wl = r.gy.data.flags.writeable
    try:
        r.check("start")
        try:
            r.run_node(case["tree"], 0, "root")
        except (UserErr, UserBaseErr):
            r.cnt["exceptions_unwound"] += 1
        # back at top level: scopes are all closed; only turn_* calls made OUTSIDE any scope may have changed the default
        r.check("end (all scopes closed)")
    finally:
        gt.TRACK_GRAPH = True
        lm.MEM_GUARD = True
        for m in (mg.no_autodiff, mg.mem_guard_off, mg.mem_guard_on):
            if m._depth != 0 or m._depth_tracker:
                r.viol.append({"monitor": "M-ctx", "mech": "depth-bookkeeping-left-over", "msg": f"{type(m).__name__}: _depth={m._depth}, tracker={m._depth_tracker} after all scopes closed"})
                m._depth = 0
                m._depth_tracker.clear()
    if case.get("chain"):
        r.cnt["chain_cases"] = 1
    return {"viol": r.viol[:4], "counters": r.cnt, "sets": {"kinds": ["chain" if case.get("chain") else "tree"]}, "sig": sig_of(case["tree"]),
            "nontrivial": r.maxdepth >= 2 or r.cnt["exceptions_unwound"] > 0}

"""C18 — save/load round-trips a tensor's data, dtype and gradient."""
import io
import os
import random
import shutil
import tempfile
from pathlib import Path
import numpy as np

from mgverif.hooks import REG
from mgverif.props.C13 import snapshot, diff_snap

PID = "C18"
LEVEL = "exploration"
RULE = ("seeded tensors over shapes {0-d, empty, 1-d, 2-d, 3-d} x dtypes {bool, int8, int64, float16, float32, float64} x constant flag x "
        "gradient state {none, from a real backward, a view holding a view-gradient, a base whose view carries the graph, nulled} x graph "
        "state {leaf, inside a live graph as input, op output with creator} saved and re-loaded through eight carriers (str path with .npz "
        "suffix, pathlib.Path, BytesIO, a real binary file object, BytesIO / file object whose archive starts after a caller-written header, "
        "str / Path names with dots and no suffix next to a sibling name). Judged: load(save(t)) has equal data (array_equal, NaN==NaN), identical "
        "dtype and shape, and a gradient equal to t.grad in value, shape, dtype and presence; a snapshot of t and of every other live tensor "
        "(bytes, dtype, shape, flags, gradient bytes, creator/base identity, consumer count, writeability) is identical before and after save. "
        "Non-trivial: the tensor carries a gradient; distinct = (shape, dtype, constant, gradient state, graph state, carrier).")
ASSUMPTIONS = ["paths are given with the .npz suffix (NumPy appends it otherwise; documented)", "the constant flag is not part of the statement"]
TIERS = {"quick": {"cases": 8000}, "thorough": {"cases": 200000}}
FLOORS = {"quick": {"roundtrips": 3800, "with_grad": 800, "save_snapshots": 3800},
          "thorough": {"roundtrips": 19000, "with_grad": 4000, "save_snapshots": 19000}}
SHAPES = [(), (0,), (3,), (2, 3), (1, 2, 2), (2, 0)]
DTS = ["bool", "int8", "int64", "float16", "float32", "float64"]
GRADS = ["none", "backward", "view", "base_of_view", "nulled", "seeded"]
GRAPHS = ["leaf", "input_of_live_graph", "op_output"]
CARRIERS = ["str", "Path", "BytesIO", "fileobj", "BytesIO_offset", "fileobj_offset", "str_dots", "Path_dots"]


def gen_case(rng, cfg, idx):
    return {"shape": list(rng.choice(SHAPES)), "dtype": rng.choice(DTS + ["float64", "float32"]), "constant": rng.choice([None, None, None, True]),
            "grad": rng.choice(GRADS + ["backward", "seeded", "view"]), "graph": rng.choice(GRAPHS + ["leaf", "leaf", "op_output"]), "carrier": CARRIERS[idx % len(CARRIERS)], "vseed": rng.randrange(1 << 30), "special": rng.random() < 0.2}


def build(case):
    import mygrad as mg
    rng = np.random.default_rng(case["vseed"])
    shape, dt = tuple(case["shape"]), np.dtype(case["dtype"])
    n = int(np.prod(shape, dtype=int))
    if dt.kind == "f":
        vals = rng.uniform(-3, 3, size=n)
        if case["special"] and n:
            vals[rng.integers(0, n)] = rng.choice([np.nan, np.inf, -np.inf, -0.0])
    elif dt.kind == "b":
        vals = rng.integers(0, 2, size=n)
    else:
        vals = rng.integers(-5, 6, size=n)
    arr = vals.astype(dt).reshape(shape)
    keep = []
    const = case["constant"] if dt.kind == "f" else None
    kw = {} if const is None else {"constant": const}
    t = mg.tensor(arr, **kw)
    gk = case["grad"] if (dt.kind == "f" and const is not True) else "none"
    if gk == "backward":
        with np.errstate(all="ignore"):
            (t * t).sum().backward()
    elif gk == "seeded":
        with np.errstate(all="ignore"):
            (t * 2).backward(np.full(shape, 1.5, dtype=dt))
    elif gk == "nulled":
        (t * 3).sum().backward()
        t.null_grad()
    elif gk == "view" and len(shape) >= 1:
        base = t
        with np.errstate(all="ignore"):
            L = (base * base).sum()
            v = base[..., :2] if shape[-1] >= 2 else base[...]
            L.backward()
        keep.append(base)
        t = v                       # a view whose gradient is a view of its base's gradient
    elif gk == "base_of_view" and len(shape) >= 1:
        v = t[...]
        with np.errstate(all="ignore"):
            (v * 2.5).sum().backward()
        keep.append(v)              # gradient reached the base through its view
    if case["graph"] == "input_of_live_graph":
        y = t * 2                   # t now takes part in a live graph (and a non-view use nulls its gradient, by design)
        keep.append(y)
    elif case["graph"] == "op_output" and dt.kind == "f":
        u = mg.tensor(arr, **kw)
        t2 = u * 1.0
        keep += [u]
        if t.grad is None:
            t = t2
    return t, keep


def run_case(case):
    import mygrad as mg
    REG.reset()
    cnt, viol = {"roundtrips": 0, "with_grad": 0, "save_snapshots": 0}, []
    t, keep = build(case)
    env = {"t": t}
    for i, k in enumerate(keep):
        env[f"k{i}"] = k
    g0 = t.grad
    g0c = None if g0 is None else g0.copy()
    d = tempfile.mkdtemp(prefix="mgverif_c18_")
    try:
        before = snapshot(env)
        gid = id(t.grad) if t.base is None else None
        car = case["carrier"]
        fobj = None
        if car == "str":
            target = os.path.join(d, "t.npz")
            mg.save(target, t)
        elif car == "Path":
            target = Path(d) / "t.npz"
            mg.save(target, t)
        elif car == "BytesIO":
            target = io.BytesIO()
            mg.save(target, t)
            target.seek(0)
        elif car == "BytesIO_offset":
            # the archive does not start at byte 0 of the stream (a caller-written header precedes it): load reads from where the stream stands
            target = io.BytesIO()
            target.write(b"HEADER-0123456789")
            mg.save(target, t)
            target.seek(len(b"HEADER-0123456789"))
        elif car == "fileobj_offset":
            p = os.path.join(d, "t.bin")
            with open(p, "wb") as fobj:
                fobj.write(b"HDR\x00\x01\x02\x03")
                mg.save(fobj, t)
            target = open(p, "rb")
            target.seek(7)
        elif car in ("str_dots", "Path_dots"):
            # names with dots and without the .npz suffix: NumPy appends '.npz' to the whole name; sibling names must not collide
            n1, n2 = os.path.join(d, "weights.step1"), os.path.join(d, "weights.step2")
            other = mg.tensor(np.full((2,), 7.5))
            if car == "Path_dots":
                mg.save(Path(n1), t)
                mg.save(Path(n2), other)
                target = Path(n1 + ".npz")
            else:
                mg.save(n1, t)
                mg.save(n2, other)
                target = n1 + ".npz"
            if sorted(os.listdir(d)) != ["weights.step1.npz", "weights.step2.npz"]:
                viol.append({"monitor": "roundtrip", "mech": "save-file-name", "msg": f"saving to 'weights.step1' and 'weights.step2' produced {sorted(os.listdir(d))}"})
            del other
        else:
            p = os.path.join(d, "t.npz")
            with open(p, "wb") as fobj:
                mg.save(fobj, t)
            target = open(p, "rb")
        after = snapshot(env)
        cnt["save_snapshots"] += 1
        diffs = diff_snap(before, after)
        if diffs:
            viol.append({"monitor": "M-immut", "mech": "save-alters-tensor", "msg": "save changed: " + "; ".join(diffs[:3])})
        if gid is not None and id(t.grad) != gid:
            viol.append({"monitor": "M-immut", "mech": "save-replaces-gradient-object", "msg": "t.grad is a different object after save"})
        try:
            r = mg.load(target)
        except Exception as e:
            viol.append({"monitor": "roundtrip", "mech": f"load-raises:{car}:{type(e).__name__}", "msg": f"load through carrier {car} raised {type(e).__name__}: {e}"})
            r = None
        finally:
            if car.startswith("fileobj"):
                target.close()
        if r is None:
            return {"viol": viol[:3], "counters": cnt, "sets": {"carriers": [car]}, "sig": repr(car), "nontrivial": False}
        cnt["roundtrips"] += 1
        if not isinstance(r, mg.Tensor):
            viol.append({"monitor": "roundtrip", "mech": "load-not-tensor", "msg": f"load returned {type(r).__name__}"})
        else:
            if r.dtype != t.dtype or r.shape != t.shape or not np.array_equal(r.data, t.data, equal_nan=True):
                viol.append({"monitor": "roundtrip", "mech": "data-differs", "msg": f"loaded {r.dtype} {r.shape} vs saved {t.dtype} {t.shape} (values equal: {np.array_equal(r.data, t.data, equal_nan=True) if r.shape == t.shape else False})"})
            rg = r.grad
            if (rg is None) != (g0c is None):
                viol.append({"monitor": "roundtrip", "mech": "grad-presence", "msg": f"loaded grad is {'None' if rg is None else 'present'}, saved tensor's grad was {'None' if g0c is None else 'present'}"})
            elif rg is not None:
                cnt["with_grad"] += 1
                if type(rg) is not np.ndarray or rg.dtype != g0c.dtype or rg.shape != g0c.shape or not np.array_equal(rg, g0c, equal_nan=True):
                    viol.append({"monitor": "roundtrip", "mech": "grad-differs", "msg": f"loaded grad {type(rg).__name__} {getattr(rg, 'dtype', None)} {getattr(rg, 'shape', None)} vs {g0c.dtype} {g0c.shape}"})
    finally:
        shutil.rmtree(d, ignore_errors=True)
    sig = repr((tuple(case["shape"]), case["dtype"], case["constant"], case["grad"], case["graph"], case["carrier"]))
    return {"viol": viol[:3], "counters": cnt, "sets": {"carriers": [case["carrier"]], "grad_states": [case["grad"] + ("+" if g0c is not None else "-")]},
            "sig": sig, "nontrivial": g0c is not None}

"""C04 — views and in-place updates mirror NumPy's memory semantics (NumPy shadow after every statement)."""
import numpy as np

from mgverif.hooks import REG
from mgverif.prog import Interp
from mgverif.oracle import Shadow
from mgverif import mgrun
from mgverif.gen.inplace import gen_history

PID = "C04"
LEVEL = "exploration"
RULE = ("seeded random histories (3-12 statements quick, up to 30 thorough) over a base tensor (leaf or op output, float or integer, "
        "C/F/strided/negative-stride), its views and views of views: view creation (basic indexing, reshape, squeeze, ravel, "
        "expand_dims, broadcast_to, atleast_kd, transpose/T/moveaxis/swapaxes, einsum diagonal/permutation), non-view reads, and "
        "in-place updates (set-item with basic/advanced/boolean/repeated indices and scalar/array/tensor/overlapping values, augmented "
        "assignment, ufunc out= with where=, .shape assignment). The same statements run on NumPy arrays; after EVERY statement all live "
        "tensors are compared with the shadow: values/dtype/shape exactly, pairwise np.shares_memory, .base identity, object identity "
        "and constant flag. Non-trivial: >=1 in-place statement and >=1 live view; distinct = structure hash.")
ASSUMPTIONS = ["NumPy executing the same statements is the specification", "empty arrays are excluded from sharing/base checks",
               "view-producing functions are applied to tensors only (never to raw ndarrays)",
               "no backward()/clear_graph() inside a history (one graph epoch)"]
TIERS = {"quick": {"cases": 12000, "nstmts": (3, 12)}, "thorough": {"cases": 300000, "nstmts": (4, 30)}}
FLOORS = {"quick": {"stmt_checks": 20000, "pair_checks": 100000, "inplace_stmts": 4000, "base_checks": 40000},
          "thorough": {"stmt_checks": 100000, "pair_checks": 500000, "inplace_stmts": 20000, "base_checks": 200000}}


def gen_case(rng, cfg, idx):
    import os
    b, base, n_inplace = gen_history(rng, nstmts=cfg["nstmts"], setshape_w=float(os.environ.get("MGV_SETSHAPE_W", "0.6")), const_kw_prob=0.12, bad_w=0.5, guard_off_prob=0.08)
    return {"prog": b.prog, "base": base}


def same_values(a, b):
    """Exact, except that float results may differ by <= 4 ulp: NumPy's own transcendental loops (sinh, exp, ...) give last-bit
    different results for the same numbers depending on the memory layout / SIMD path of the operands (seen at 1 ulp in 3 of
    300000 thorough histories), so NumPy run on differently laid-out shadow arrays is itself only that precise."""
    if np.array_equal(a, b, equal_nan=True):
        return True
    if a.dtype.kind != "f":
        return False
    with np.errstate(all="ignore"):
        tol = 4 * np.spacing(np.maximum(np.abs(a), np.abs(b)))
        return bool(np.all((np.abs(a - b) <= tol) | ((a != a) & (b != b)) | (a == b)))


def compare_state(it, sh, ids, consts, i, st, cnt, viol, check_base=True):
    env = it.env
    names = [n for n, v in env.items() if mgrun.is_tensor(v)]
    for n in names:
        t = env[n]
        s = sh.it.env.get(n)
        if s is None:
            continue
        cnt["value_checks"] = cnt.get("value_checks", 0) + 1
        if t.data.dtype != s.dtype or t.data.shape != s.shape or not same_values(t.data, s):
            viol.append({"monitor": "O-np", "mech": f"value-after-{st['k']}",
                         "msg": f"after stmt {i} ({st['k']} {st.get('fn', st.get('op', ''))}): {n} = {t.data.tolist()} ({t.data.dtype}) but NumPy has {s.tolist()} ({s.dtype})"})
            return False
        if n in ids:
            if ids[n] != id(t):
                viol.append({"monitor": "identity", "mech": "identity", "msg": f"name {n} is bound to another object after stmt {i}"})
            if consts[n] != t.constant:
                viol.append({"monitor": "identity", "mech": "constant-flag-changed", "msg": f"{n}.constant changed {consts[n]} -> {t.constant} at stmt {i}"})
        else:
            ids[n] = id(t)
            consts[n] = t.constant
        if check_base and s.size and n in sh.owner:
            o = sh.owner[n]
            cnt["base_checks"] = cnt.get("base_checks", 0) + 1
            if o == n:
                if t.base is not None:
                    viol.append({"monitor": "base", "mech": "owner-has-base", "msg": f"after stmt {i}: {n} owns its memory in NumPy but .base is {t.base!r}"})
            elif o in env and mgrun.is_tensor(env[o]):
                if s is sh.it.env.get(o):
                    # NumPy returned the very same array object (e.g. atleast_1d on a 1-D array): MyGrad documents returning
                    # the tensor itself; a proper view of it is equally faithful
                    if t is not env[o] and t.base is not env[o]:
                        viol.append({"monitor": "base", "mech": "identity-view-without-base",
                                     "msg": f"after stmt {i} ({st['k']} {st.get('fn', '')}): NumPy returned {o} itself for {n}; tensor is neither {o} nor a view of it"})
                elif t.base is not env[o]:
                    viol.append({"monitor": "base", "mech": "wrong-base" if t.base is not None else "view-without-base",
                                 "msg": f"after stmt {i} ({st['k']} {st.get('fn', '')}): {n} is a view of {o} in NumPy but .base is "
                                        f"{'None' if t.base is None else 'another tensor'}"})
    for a in range(len(names)):
        for bb in range(a + 1, len(names)):
            na, nb = names[a], names[bb]
            sa, sb = sh.it.env.get(na), sh.it.env.get(nb)
            if sa is None or sb is None or sa.size == 0 or sb.size == 0:
                continue
            cnt["pair_checks"] = cnt.get("pair_checks", 0) + 1
            m1 = np.shares_memory(env[na].data, env[nb].data)
            m2 = np.shares_memory(sa, sb)
            if m1 != m2:
                viol.append({"monitor": "sharing", "mech": "sharing-lost" if m2 else "sharing-spurious",
                             "msg": f"after stmt {i} ({st['k']} {st.get('fn', '')}): shares_memory({na},{nb}) is {m1} on tensors, {m2} on arrays"})
                return False
    return not viol


def run_case(case):
    prog = case["prog"]
    REG.reset()
    it = Interp("mg")
    sh = Shadow(prog, skip=[i for i, st in enumerate(prog) if st.get("expect_raise")])
    ids, consts = {}, {}
    cnt, viol, sets = {}, [], {}
    kinds = []
    for i, st in enumerate(prog):
        _, _, sexc = sh.step()
        if st.get("expect_raise"):
            # NumPy rejects this statement (checked at generation time): MyGrad must reject it too, and nothing may change
            cnt["numpy_rejected_stmts"] = cnt.get("numpy_rejected_stmts", 0) + 1
            try:
                it.exec(i, st)
                viol.append({"monitor": "O-np", "mech": f"accepts-what-numpy-rejects:{st['k']}", "msg": f"stmt {i} {st['k']} {st.get('shape', '')} is rejected by NumPy but MyGrad accepted it"})
                break
            except Exception:
                pass
            if not compare_state(it, sh, ids, consts, i, st, cnt, viol):
                break
            continue
        if sexc is not None:
            return {"viol": [{"monitor": "harness", "mech": "shadow-raised", "msg": f"shadow raised at {i}: {sexc!r}"}]}
        try:
            it.exec(i, st)
        except Exception as e:
            viol.append({"monitor": "mg-raised", "mech": f"mg-raises:{type(e).__name__}:{st['k']}:{st.get('fn', st.get('op', ''))}",
                         "msg": f"stmt {i} {st} raised {type(e).__name__}: {e} (NumPy accepted it)"})
            break
        cnt["stmt_checks"] = cnt.get("stmt_checks", 0) + 1
        if st["k"] in ("setitem", "aug", "uout"):
            cnt["inplace_stmts"] = cnt.get("inplace_stmts", 0) + 1
            kinds.append(st["k"] + ":" + str(st.get("fn") or st.get("op") or ""))
        elif st["k"] == "setshape":
            cnt["setshape_stmts"] = cnt.get("setshape_stmts", 0) + 1
        elif st["k"] == "call" and sh.owner.get(st["out"]) not in (None, st["out"]):
            cnt["view_stmts"] = cnt.get("view_stmts", 0) + 1
            kinds.append("view:" + st["fn"])
        if not compare_state(it, sh, ids, consts, i, st, cnt, viol):
            break
    nviews = sum(1 for n, o in sh.owner.items() if o != n)
    sets["stmt_kinds"] = sorted(set(kinds))
    sets["opclasses"] = sorted(REG.opclasses)
    cnt["placeholders"] = len(REG.placeholders)
    return {"viol": viol[:4], "counters": cnt, "sets": sets, "sig": mgrun.struct_sig(prog),
            "nontrivial": cnt.get("inplace_stmts", 0) >= 1 and nviews >= 1}

"""C16 — nnet layers equal their documented equations for every valid configuration."""
import itertools
import random
import numpy as np

from mgverif.hooks import REG, byte_bounds
from mgverif import refs_nnet as RN

PID = "C16"
LEVEL = "exploration"
RULE = ("(a) sliding_window_view: ENUMERATED (shape from {(4,),(5,),(6,),(3,5),(2,6),(4,4),(2,3,4)} x windowed axes 1..2 x window 1..3 x step 1..3 x "
        "dilation None/1..3, plus malformed arguments) crossed with a seeded input layout {C, F, strided, negative stride, relaxed-stride size-1 "
        "axis, read-only} and dtype: accepted iff the test-pinned rule says so; out[g..,n..,w..] == arr[n.., g*step+w*dil]; result not writeable; "
        "M-strided: byte bounds of every as_strided result lie inside its source array. (b) conv_nd / max_pool: seeded configurations over "
        "N,C,F in 1..2, 1-3 spatial axes of size 1..7, stride 1..3, padding 0..2, dilation 1..3 (int and tuple spellings), half of them valid by "
        "construction: a configuration is accepted iff every placement lies inside the padded data and the placements tile it exactly, and an "
        "accepted one equals the naive loop evaluation of the documented formula (<= 64 eps relative to the result's scale). (c) batchnorm "
        "(gamma/beta optional, ndim 2-5), gru (T,N,C,D in 1..3, s0, constants, float64, NUMBA_BOUNDSCHECK=1), softmax/logsoftmax (axis None/int/"
        "tuple, 0-d, empty) and the six losses (all documented options) against their naive references; invalid label/weight shapes must raise. "
        "Non-trivial: the call was accepted and compared; distinct = (function, configuration class).")
ASSUMPTIONS = ["mgverif/refs_nnet.py: loop references and validity predicates written from the docstrings only (never from the implementation)"]
ENV = {"NUMBA_BOUNDSCHECK": "1"}
SW_SHAPES = [(4,), (5,), (6,), (3, 5), (2, 6), (4, 4), (2, 3, 4), (1, 5), (3, 1), (5, 1)]
LAYOUTS = ["C", "F", "strided", "neg", "relaxed", "readonly"]


def sw_configs():
    out = []
    for shape in SW_SHAPES:
        for k in range(1, min(2, len(shape)) + 1):
            for win in itertools.product([1, 2, 3], repeat=k):
                for step in ([1, 2, 3] if k == 1 else [1, 2, (1, 2), (2, 1), 3]):
                    for dil in ([None, 1, 2, 3] if k == 1 else [None, 1, 2, (1, 2), (2, 1), 3]):
                        out.append((shape, win, step, dil))
    bad = [((4, 4), (2, 2), 0, None), ((4, 4), (2, 2), -1, None), ((4, 4), (2, 2), 1.5, None), ((4, 4), (0, 1), 1, None), ((4, 4), (2.0, 1), 1, None),
           ((4, 4), 2, 1, None), ((4, 4), (1, 1, 1), 1, None), ((4, 4), (2, 2), (1,), None), ((4, 4), (2, 2), 1, 0), ((4, 4), (2, 2), 1, (1,)),
           ((4, 4), (2, 2), 1, 1.0), ((6, 6), (1, 1), 1, 7), ((4, 4), (2, 2), (1, 0), None), ((4, 4), (5, 1), 1, None)]
    return out + bad


SW = sw_configs()
N_SW = len(SW)
TIERS = {"quick": {"cases": N_SW + 6000}, "thorough": {"cases": N_SW + 200000}}
FLOORS = {"quick": {"swv_configs": N_SW, "strided_bounds_checks": 2000, "layer_compared": 2500, "validity_checks": 3000},
          "thorough": {"swv_configs": N_SW, "strided_bounds_checks": 10000, "layer_compared": 12500, "validity_checks": 15000}}
LAYER_KINDS = ["conv", "conv", "conv", "pool", "pool", "batchnorm", "softmax", "loss", "loss", "gru_slot"]


def gen_case(rng, cfg, idx):
    if idx < N_SW:
        shape, win, step, dil = SW[idx]
        return {"kind": "swv", "shape": list(shape), "window": list(win) if isinstance(win, tuple) else win, "step": list(step) if isinstance(step, tuple) else step,
                "dilation": list(dil) if isinstance(dil, tuple) else dil,
                "layout": "relaxed" if (len(shape) == 2 and shape[-1] == 1 and idx % 2 == 0) else LAYOUTS[idx % len(LAYOUTS)],
                "dtype": ["float64", "float32", "int64", "float64", "bool", "float16"][(idx // 7) % 6], "vseed": rng.randrange(1 << 30)}
    k = "gru" if idx % 16 == 0 else rng.choice(LAYER_KINDS[:-1])
    c = {"kind": k, "vseed": rng.randrange(1 << 30)}
    if k == "conv":
        nsp = rng.choice([1, 1, 2, 2, 3])
        valid = rng.random() < 0.55
        axes = []
        for _ in range(nsp):
            if valid:
                from mgverif.gen.build import _rand_valid_axis
                axes.append(_rand_valid_axis(rng, documented_only=True))
            else:
                axes.append((rng.randint(1, 7), rng.randint(1, 3), rng.randint(1, 3), rng.choice([0, 0, 1, 2]), rng.choice([1, 1, 2, 3])))
        c.update({"N": rng.randint(1, 2), "C": rng.randint(1, 2), "F": rng.randint(1, 2), "axes": [list(a) for a in axes], "spell": rng.choice(["int", "tuple"]),
                  "cmismatch": rng.random() < 0.05})
    elif k == "pool":
        nsp = rng.choice([1, 2, 2])
        valid = rng.random() < 0.55
        dims = []
        for _ in range(nsp):
            P, s = rng.randint(1, 3), rng.randint(1, 3)
            X = (rng.randint(1, 3) - 1) * s + P if valid else rng.randint(1, 7)
            dims.append([X, P, s])
        c.update({"lead": [rng.randint(1, 2) for _ in range(rng.randint(0, 2))], "dims": dims, "spell": rng.choice(["int", "tuple"])})
    elif k == "batchnorm":
        nd = rng.randint(2, 5)
        c.update({"shape": [rng.randint(2, 4), rng.randint(1, 3)] + [rng.randint(1, 3) for _ in range(nd - 2)], "gamma": rng.random() < 0.6,
                  "beta": rng.random() < 0.6, "eps": rng.choice([1e-8, 1e-3, 1e-1]), "bad": rng.random() < 0.08,
                  "xdtype": rng.choice(["float64", "float64", "float32", "float16"]), "pdtype": rng.choice(["float64", "float64", "float32"])})
    elif k == "softmax":
        shape = rng.choice([[], [0], [3], [2, 3], [2, 1, 3], [2, 0]])
        nd = len(shape)
        ax = rng.choice(["default", None] + list(range(-nd, nd)) + ([tuple(rng.sample(range(nd), 2))] if nd >= 2 else []))
        c.update({"shape": shape, "axis": list(ax) if isinstance(ax, tuple) else ax, "fn": rng.choice(["softmax", "logsoftmax"]),
                  "scale": rng.choice([1, 1, 1, 400, 1000])})
    elif k == "loss":
        c.update({"fn": rng.choice(["softmax_crossentropy", "negative_log_likelihood", "multiclass_hinge", "margin_ranking_loss", "focal_loss", "softmax_focal_loss"]),
                  "N": rng.randint(1, 4), "Cn": rng.randint(2, 4), "bad": rng.choice([None, None, None, None, "labels_shape", "labels_range", "weights_shape"]),
                  "alpha": rng.choice([1, 0.5, 2]), "gamma": rng.choice([0, 0.5, 1, 2]), "hinge": rng.choice([None, 0.5, 2.0]), "margin": rng.choice([0.5, 1.0]),
                  "weights": rng.random() < 0.5, "yscalar": rng.random() < 0.3, "twoD": rng.random() < 0.5,
                  "scale": rng.choice([1, 1, 1, 400, 1000])})    # score magnitudes far outside exp's range (the documented formulas stay finite)
    else:
        c.update({"T": rng.randint(1, 3), "N": rng.randint(1, 2), "C": rng.randint(1, 3), "D": rng.randint(1, 3), "s0": rng.random() < 0.4,
                  "consts": [rng.random() < 0.2 for _ in range(10)], "scale": rng.choice([1, 1, 1, 300, 1500]),
                  "dtype": rng.choice(["float64", "float64", "float32"]) if cfg.get("tier") == "thorough" else "float64"})
    return c


def layout(a, lay):
    if lay == "F":
        return np.asfortranarray(a)
    if lay == "strided":
        big = np.zeros(tuple(2 * n for n in a.shape), dtype=a.dtype)
        v = big[tuple(slice(0, None, 2) for _ in a.shape)]
        v[...] = a
        return v
    if lay == "neg":
        return a[tuple(slice(None, None, -1) for _ in a.shape)].copy()[tuple(slice(None, None, -1) for _ in a.shape)]
    if lay == "relaxed":
        # a C-contiguous array whose size-1 trailing axis carries an arbitrary stride (NumPy's relaxed-stride rule)
        if a.ndim == 2 and a.shape[-1] == 1:
            big = np.zeros((3, a.shape[0]), dtype=a.dtype)
            big[0] = a[:, 0]
            v = big[0:1].T          # shape (n, 1), strides (itemsize, n*itemsize): flagged C-contiguous under relaxed strides
            assert v.flags.c_contiguous and v.strides[-1] != v.itemsize or a.shape[0] == 1
            return v
        if a.ndim == 2 and a.shape[0] == 1:
            big = np.zeros((a.shape[1], 3), dtype=a.dtype)
            big[:, 0] = a[0]
            return big[:, 0:1].T
        return a
    if lay == "readonly":
        a = a.copy()
        a.flags.writeable = False
        return a
    return a


def close(got, want, scale_eps=64, coarsest=None):
    """``coarsest``: dtypes of the operands; the comparison is made at the
    precision of the coarsest float among them and the result (a float16 input
    combined with float64 parameters is still computed from float16 data)."""
    got, want = np.asarray(got), np.asarray(want)
    if got.shape != want.shape:
        return False
    if got.size == 0:
        return True
    eps = np.finfo(got.dtype).eps if got.dtype.kind == "f" else np.finfo(np.float64).eps
    for dt in coarsest or ():
        if np.dtype(dt).kind == "f":
            eps = max(eps, np.finfo(np.dtype(dt)).eps)
    S = max(1.0, float(np.max(np.abs(want.astype(np.float64)))) if np.all(np.isfinite(want.astype(np.float64))) else 1.0)
    return bool(np.allclose(got.astype(np.longdouble), want.astype(np.longdouble), rtol=scale_eps * eps, atol=scale_eps * eps * S, equal_nan=True))


def strided_monitor(cnt, viol, where):
    for ev in REG.events:
        if ev[0] != "as_strided":
            continue
        src, out = ev[1], ev[2]
        cnt["strided_bounds_checks"] = cnt.get("strided_bounds_checks", 0) + 1
        bo, bs = byte_bounds(out), byte_bounds(src)
        if bo is None:
            continue
        if bs is None or bo[0] < bs[0] or bo[1] > bs[1]:
            viol.append({"monitor": "M-strided", "mech": "as_strided-out-of-bounds", "msg": f"{where}: as_strided result spans bytes {bo} outside its source {bs} "
                         f"(source shape {src.shape} strides {src.strides}, result shape {out.shape} strides {out.strides})"})
            return


def run_swv(c, cnt, viol):
    import mygrad as mg
    rng = np.random.default_rng(c["vseed"])
    shape = tuple(c["shape"])
    dt = np.dtype(c["dtype"])
    base = (rng.integers(-50, 50, size=shape)).astype(dt) if dt.kind != "f" else rng.uniform(-3, 3, size=shape).astype(dt)
    arr = layout(base, c["layout"])
    win = tuple(c["window"]) if isinstance(c["window"], list) else c["window"]
    step = tuple(c["step"]) if isinstance(c["step"], list) else c["step"]
    dil = tuple(c["dilation"]) if isinstance(c["dilation"], list) else c["dilation"]
    cnt["swv_configs"] = 1
    cnt["validity_checks"] = cnt.get("validity_checks", 0) + 1
    try:
        valid = RN.swv_valid(shape, win, step, dil)
    except Exception:
        valid = False
    REG.reset()
    try:
        out = mg.sliding_window_view(arr, win, step, dil)
        raised = None
    except Exception as e:
        out, raised = None, e
    tag = f"sliding_window_view(shape={shape} {c['layout']} {dt}, window={win}, step={step}, dilation={dil})"
    if valid and raised is not None:
        viol.append({"monitor": "validity", "mech": "swv-rejects-valid", "msg": f"{tag} raised {type(raised).__name__}: {raised}"})
        return
    if not valid:
        if raised is None:
            viol.append({"monitor": "validity", "mech": "swv-accepts-invalid", "msg": f"{tag} was accepted (result shape {out.shape})"})
        return
    strided_monitor(cnt, viol, tag)
    want = RN.swv_ref(np.ascontiguousarray(base), win, step, dil)
    cnt["layer_compared"] = cnt.get("layer_compared", 0) + 1
    if out.shape != want.shape or out.dtype != base.dtype or not np.array_equal(out, want):
        viol.append({"monitor": "O-naive", "mech": "swv-value" + (":relaxed-stride" if c["layout"] == "relaxed" else ""),
                     "msg": f"{tag}: result differs from arr[n.., g*step + w*dilation] (shape {out.shape} vs {want.shape})"})
    if out.flags.writeable:
        viol.append({"monitor": "O-naive", "mech": "swv-writeable", "msg": f"{tag}: the view is writeable"})


def modes_agree(call, args, out, cnt, viol, tag, name):
    """The documented value does not depend on how the operands are handed over or on graph tracking: the same call under
    no_autodiff, and with the float array operands wrapped as non-constant tensors, must return bit-identical values."""
    import mygrad as mg
    variants = []
    try:
        with mg.no_autodiff, np.errstate(all="ignore"):
            variants.append(("under no_autodiff", call(*args)))
        targs = tuple(mg.tensor(a) if isinstance(a, np.ndarray) and a.dtype.kind == "f" else a for a in args)
        with np.errstate(all="ignore"):
            variants.append(("with non-constant tensor operands", call(*targs)))
    except Exception as e:
        viol.append({"monitor": "modes", "mech": f"mode-raises:{name}", "msg": f"{tag}: {type(e).__name__}: {e} (accepted with array operands while tracking)"})
        return
    for how, o2 in variants:
        cnt["mode_compared"] = cnt.get("mode_compared", 0) + 1
        a, b_ = np.asarray(out.data if hasattr(out, "data") and not isinstance(out, np.ndarray) else out), \
            np.asarray(o2.data if hasattr(o2, "data") and not isinstance(o2, np.ndarray) else o2)
        if a.dtype != b_.dtype or a.shape != b_.shape or not np.array_equal(a, b_, equal_nan=True):
            viol.append({"monitor": "modes", "mech": f"mode-value:{name}", "msg": f"{tag}: {how} the result is {np.ravel(b_)[:3]} ({b_.dtype}{b_.shape}), otherwise {np.ravel(a)[:3]} ({a.dtype}{a.shape})"})
            return


def run_conv(c, cnt, viol):
    import mygrad as mg
    from mygrad.nnet.layers import conv_nd
    rng = np.random.default_rng(c["vseed"])
    axes = c["axes"]
    x = rng.uniform(-2, 2, size=(c["N"], c["C"]) + tuple(a[0] for a in axes))
    w = rng.uniform(-2, 2, size=(c["F"], c["C"] + (1 if c.get("cmismatch") else 0)) + tuple(a[1] for a in axes))
    def sp(vals):
        return vals[0] if (c["spell"] == "int" and len(set(vals)) == 1) else tuple(vals)
    stride, pad, dil = sp([a[2] for a in axes]), sp([a[3] for a in axes]), sp([a[4] for a in axes])
    valid = RN.conv_valid(x.shape, w.shape, stride, pad, dil)
    cnt["validity_checks"] = cnt.get("validity_checks", 0) + 1
    REG.reset()
    tag = f"conv_nd(x{x.shape}, w{w.shape}, stride={stride}, padding={pad}, dilation={dil})"
    try:
        out = conv_nd(x, w, stride=stride, padding=pad, dilation=dil)
        raised = None
    except Exception as e:
        out, raised = None, e
    if valid and raised is not None:
        over = isinstance(raised, ValueError) and "dilated window" in str(raised) and any(a[1] * a[4] > a[0] + 2 * a[3] for a in axes)
        viol.append({"monitor": "validity", "mech": "conv-dilation-overreject" if over else "conv-rejects-valid", "msg": f"{tag} raised {type(raised).__name__}: {raised}"})
        return
    if not valid:
        if raised is None:
            viol.append({"monitor": "validity", "mech": "conv-accepts-invalid", "msg": f"{tag} was accepted (result shape {out.shape})"})
        return
    strided_monitor(cnt, viol, tag)
    want = RN.conv_ref(x, w, stride, pad, dil)
    cnt["layer_compared"] = cnt.get("layer_compared", 0) + 1
    modes_agree(lambda x_, w_: conv_nd(x_, w_, stride=stride, padding=pad, dilation=dil), (x, w), out, cnt, viol, tag, "conv_nd")
    if not close(out.data, want, 256):
        viol.append({"monitor": "O-naive", "mech": "conv-value", "msg": f"{tag}: differs from the documented cross-correlation (max abs diff "
                     f"{np.max(np.abs(out.data - want)) if out.shape == want.shape else 'shape ' + str(out.shape) + ' vs ' + str(want.shape)})"})


def run_pool(c, cnt, viol):
    from mygrad.nnet.layers import max_pool
    rng = np.random.default_rng(c["vseed"])
    dims = c["dims"]
    shape = tuple(c["lead"]) + tuple(d[0] for d in dims)
    x = rng.permutation(int(np.prod(shape))).astype(float).reshape(shape) * 0.37 - 2.0
    pool = tuple(d[1] for d in dims)
    strides = [d[2] for d in dims]
    stride = strides[0] if (c["spell"] == "int" and len(set(strides)) == 1) else tuple(strides)
    valid = RN.pool_valid(shape, pool, stride)
    cnt["validity_checks"] = cnt.get("validity_checks", 0) + 1
    REG.reset()
    tag = f"max_pool(x{shape}, pool={pool}, stride={stride})"
    try:
        out = max_pool(x, pool, stride)
        raised = None
    except Exception as e:
        out, raised = None, e
    if valid and raised is not None:
        viol.append({"monitor": "validity", "mech": "pool-rejects-valid", "msg": f"{tag} raised {type(raised).__name__}: {raised}"})
        return
    if not valid:
        if raised is None:
            viol.append({"monitor": "validity", "mech": "pool-accepts-invalid", "msg": f"{tag} was accepted (result shape {out.shape})"})
        return
    strided_monitor(cnt, viol, tag)
    want = RN.max_pool_ref(x, pool, stride)
    cnt["layer_compared"] = cnt.get("layer_compared", 0) + 1
    modes_agree(lambda x_: max_pool(x_, pool, stride), (x,), out, cnt, viol, tag, "max_pool")
    if out.shape != want.shape or not np.array_equal(out.data, want):
        viol.append({"monitor": "O-naive", "mech": "pool-value", "msg": f"{tag}: differs from the window maxima"})


def run_batchnorm(c, cnt, viol):
    from mygrad.nnet.layers import batchnorm
    rng = np.random.default_rng(c["vseed"])
    shape = tuple(c["shape"])
    x = rng.uniform(-2, 2, size=shape).astype(c.get("xdtype", "float64"))
    C = shape[1]
    g = rng.uniform(0.5, 2, size=(C + (1 if c.get("bad") else 0),)).astype(c.get("pdtype", "float64")) if c["gamma"] else None
    b = rng.uniform(-1, 1, size=(C,)).astype(c.get("pdtype", "float64")) if c["beta"] else None
    tag = f"batchnorm(x{shape}, gamma={None if g is None else g.shape}, beta={None if b is None else b.shape}, eps={c['eps']})"
    cnt["validity_checks"] = cnt.get("validity_checks", 0) + 1
    try:
        out = batchnorm(x, gamma=g, beta=b, eps=c["eps"])
    except Exception as e:
        if c.get("bad") and g is not None:
            return
        viol.append({"monitor": "validity", "mech": "batchnorm-raises", "msg": f"{tag} raised {type(e).__name__}: {e}"})
        return
    if c.get("bad") and g is not None:
        viol.append({"monitor": "validity", "mech": "batchnorm-accepts-bad-gamma", "msg": f"{tag} accepted a gamma of the wrong length"})
        return
    want = RN.batchnorm_ref(x, g, b, c["eps"])
    cnt["layer_compared"] = cnt.get("layer_compared", 0) + 1
    modes_agree(lambda x_: batchnorm(x_, gamma=g, beta=b, eps=c["eps"]), (x,), out, cnt, viol, tag, "batchnorm")
    if not close(out.data, want, 64, coarsest=[a.dtype for a in (x, g, b) if a is not None]):
        viol.append({"monitor": "O-naive", "mech": "batchnorm-value", "msg": f"{tag}: differs from (x-mean)/sqrt(var+eps)*gamma+beta, max abs diff {np.max(np.abs(out.data - want))}"})


def run_softmax(c, cnt, viol):
    from mygrad.nnet import activations as A
    rng = np.random.default_rng(c["vseed"])
    shape = tuple(c["shape"])
    x = rng.uniform(-3, 3, size=shape) * c.get("scale", 1)
    ax = c["axis"]
    kw = {} if ax == "default" else {"axis": tuple(ax) if isinstance(ax, list) else ax}
    f = getattr(A, c["fn"])
    ref = RN.softmax_ref if c["fn"] == "softmax" else RN.logsoftmax_ref
    tag = f"{c['fn']}(x{shape}, {kw})"
    rax = -1 if ax == "default" else kw["axis"]
    try:
        want = ref(x, rax)
        ref_ok = True
    except Exception:
        ref_ok = False
    try:
        with np.errstate(all="ignore"):
            out = f(x, **kw)
    except Exception as e:
        if ref_ok and len(shape) > 0 and 0 not in shape:
            viol.append({"monitor": "validity", "mech": f"{c['fn']}-raises", "msg": f"{tag} raised {type(e).__name__}: {e}"})
        else:
            cnt["softmax_degenerate_raises"] = cnt.get("softmax_degenerate_raises", 0) + 1
        return
    if not ref_ok:
        cnt["softmax_ref_rejects"] = cnt.get("softmax_ref_rejects", 0) + 1
        return
    cnt["layer_compared"] = cnt.get("layer_compared", 0) + 1
    modes_agree(lambda x_: f(x_, **kw), (x,), out, cnt, viol, tag, c["fn"])
    if not close(out.data, want, 256):
        viol.append({"monitor": "O-naive", "mech": f"{c['fn']}-value", "msg": f"{tag}: differs from the documented normalisation"})


def run_loss(c, cnt, viol):
    from mygrad.nnet import losses as Ls
    rng = np.random.default_rng(c["vseed"])
    fn, N, Cn, bad = c["fn"], c["N"], c["Cn"], c["bad"]
    y = rng.integers(0, Cn, size=N)
    if bad == "labels_shape":
        y = rng.integers(0, Cn, size=N + 1)
    elif bad == "labels_range":
        y = y.copy()
        y[0] = Cn + 2
    kw, rkw = {}, {}
    if fn == "margin_ranking_loss":
        shp = (N, Cn) if c["twoD"] else (N,)
        x1, x2 = rng.uniform(-2, 2, size=shp), rng.uniform(-2, 2, size=shp)
        yv = (1 if c["vseed"] % 2 else -1) if c["yscalar"] else rng.choice([1.0, -1.0], size=N + (1 if bad == "labels_shape" else 0))
        args = (x1, x2, yv, c["margin"])
        ref = RN.margin_ranking_loss_ref
        invalid = bad == "labels_shape" and not c["yscalar"]
    else:
        if fn == "focal_loss":
            raw = rng.uniform(0.2, 1.0, size=(N, Cn))
            x = raw / raw.sum(axis=1, keepdims=True)
        else:
            x = rng.uniform(-2, 2, size=(N, Cn))
            if fn == "softmax_crossentropy" and c.get("scale", 1) != 1:
                x = x * np.array([1.0, c["scale"], -c["scale"], 0.5 * c["scale"]])[:N, None]      # data of very different score scales in one batch
        args = (x, y)
        invalid = bad in ("labels_shape", "labels_range")
        if fn in ("focal_loss", "softmax_focal_loss"):
            kw = {"alpha": c["alpha"], "gamma": c["gamma"]}
        elif fn == "multiclass_hinge" and c["hinge"] is not None:
            kw = {"hinge": c["hinge"]}
        elif fn == "negative_log_likelihood" and c["weights"]:
            kw = {"weights": rng.uniform(0.5, 2, size=(Cn + (1 if bad == "weights_shape" else 0),))}
            invalid = invalid or bad == "weights_shape"
        ref = getattr(RN, fn + "_ref")
    tag = f"{fn}(N={N}, C={Cn}, {dict((k, (v if not hasattr(v, 'shape') else v.shape)) for k, v in kw.items())}, bad={bad})"
    cnt["validity_checks"] = cnt.get("validity_checks", 0) + 1
    try:
        with np.errstate(all="ignore"):
            out = getattr(Ls, fn)(*args, **kw)
        raised = None
    except Exception as e:
        out, raised = None, e
    if invalid:
        if raised is None:
            viol.append({"monitor": "validity", "mech": f"loss-accepts-invalid:{fn}:{bad}", "msg": f"{tag} was accepted"})
        return
    if raised is not None:
        viol.append({"monitor": "validity", "mech": f"loss-raises:{fn}", "msg": f"{tag} raised {type(raised).__name__}: {raised}"})
        return
    want = ref(*args, **kw)
    cnt["layer_compared"] = cnt.get("layer_compared", 0) + 1
    modes_agree(lambda *a: getattr(Ls, fn)(*a, **kw), args, out, cnt, viol, tag, fn)
    if not close(out.data, want, 1024):
        viol.append({"monitor": "O-naive", "mech": f"loss-value:{fn}", "msg": f"{tag}: {np.ravel(out.data)[:3]} vs documented {np.ravel(want)[:3]}"})


def run_gru(c, cnt, viol):
    from mygrad.nnet.layers.gru import gru
    import mygrad as mg
    rng = np.random.default_rng(c["vseed"])
    T, N, C, D = c["T"], c["N"], c["C"], c["D"]
    dt = np.dtype(c["dtype"])
    X = (rng.uniform(-1, 1, size=(T, N, C)) * c.get("scale", 1)).astype(dt)
    ps = []
    for _ in range(3):
        ps += [rng.uniform(-1, 1, size=(C, D)).astype(dt), rng.uniform(-1, 1, size=(D, D)).astype(dt), rng.uniform(-1, 1, size=(D,)).astype(dt)]
    s0 = rng.uniform(-0.5, 0.5, size=(N, D)).astype(dt) if c["s0"] else None
    ts = [mg.tensor(a, constant=bool(k)) for a, k in zip([X] + ps, c["consts"])]
    REG.reset()
    out = gru(*ts, s0=s0)
    want = RN.gru_ref(*[a.astype(np.float64) for a in [X] + ps], s0=None if s0 is None else s0.astype(np.float64))
    cnt["layer_compared"] = cnt.get("layer_compared", 0) + 1
    tol = 4096 if dt == np.float64 else 64
    if out.shape != want.shape or not close(out.data.astype(dt), want.astype(dt), tol):
        viol.append({"monitor": "O-naive", "mech": "gru-value", "msg": f"gru(T={T},N={N},C={C},D={D},s0={c['s0']},{dt}): hidden sequence differs from the documented recurrence "
                     f"(max abs diff {np.max(np.abs(out.data - want)) if out.shape == want.shape else out.shape})"})
    with np.errstate(all="ignore"):
        out.sum().backward()
    cnt["gru_backward_runs"] = cnt.get("gru_backward_runs", 0) + 1


def run_case(c):
    cnt, viol = {}, []
    k = c["kind"]
    {"swv": run_swv, "conv": run_conv, "pool": run_pool, "batchnorm": run_batchnorm, "softmax": run_softmax, "loss": run_loss, "gru": run_gru}[k](c, cnt, viol)
    if k == "swv":
        sig = repr(("swv", tuple(c["shape"]), str(c["window"]), str(c["step"]), str(c["dilation"]), c["layout"], c["dtype"]))
    elif k == "conv":
        sig = repr(("conv", c["N"], c["C"], c["F"], str(c["axes"]), c["spell"]))
    elif k == "pool":
        sig = repr(("pool", str(c["lead"]), str(c["dims"]), c["spell"]))
    else:
        sig = repr(sorted((kk, str(v)) for kk, v in c.items() if kk != "vseed"))
    return {"viol": viol[:3], "counters": cnt, "sets": {"kinds": [k if k != "loss" else "loss:" + c["fn"]]}, "sig": sig,
            "nontrivial": cnt.get("layer_compared", 0) > 0}


def classify(v, case):
    return v.get("mech") or v["monitor"]

"""C02 — each operation's backward pass is the exact VJP of its own forward pass."""
import random
import numpy as np

from mgverif.hooks import REG, all_operation_subclasses
from mgverif.prog import Interp, enc_arr
from mgverif.oracle import Shadow, FD
from mgverif.gradcheck import check_grads
from mgverif import mgrun, ops_table as OT
from mgverif.gen import build as B
from mgverif.gen.inplace import UFUNC1_OUT, UFUNC2_OUT
from mgverif.cli import case_seed

PID = "C02"
LEVEL = "exploration"
RULE = ("for EVERY spec of the op table (all public differentiable entry points; the registries are walked at run time and unreached "
        "Operation subclasses are listed) N seeded single-operation programs: 1-3 leaves (float64 mostly, float32/float16 in a fraction; "
        "0-d, empty, C/F/strided/negative-stride/no-copy layouts; values inside the op's differentiable domain), one call with a random "
        "legal option combination (axes +/-/tuple/()/None/NumPy-int, keepdims, ddof, ord, where-mask with out=, dtype=, einsum subscripts "
        "with repeats/traces/operand re-use, every index kind, repeats int/NumPy-int/sequence, ...), backward with a dense random cotangent. "
        "All input gradients are judged against longdouble 5-point+Richardson finite differences at tau=1e-11*S (float32: 2e-5, float16: 2e-2); "
        "M-gradinv (ndarray of the tensor's shape and dtype) on every gradient; plus the documented kink conventions checked exactly. "
        "Non-trivial: >=1 direction judged; distinct = (function, spelling, option keys, operand ndims/layout/dtype) signature.")
ASSUMPTIONS = ["NumPy longdouble evaluation of the namesake / documented closed form is the reference", "domain predicates keep operands away "
               "from poles and kinks (conventions at kinks are checked separately and exactly)"]
TIERS = {"quick": {"per_spec": 60, "cases": 0}, "thorough": {"per_spec": 2500, "cases": 0}}
FLOORS = {"quick": {"fd_ok": 6000, "gradinv_checks": 3000, "kink_checks": 12},
          "thorough": {"fd_ok": 30000, "gradinv_checks": 15000, "kink_checks": 12}}
SKIP_BUDGET = {"fd": ("fd_skipped", "fd_dirs", 0.1)}

SHAPE_KINDS = {"reshape", "squeeze", "ravel", "expand_dims", "broadcast_to", "atleast", "transpose", "T", "moveaxis", "swapaxes", "flatten", "roll"}
KINKS = ["abs0", "abs0_nan", "absolute0", "max_tie", "min_tie", "arcsin1", "arccos1", "arccsc1", "arcsec1", "clip_edge", "relu0", "max_tie_bcast"]


def _gen_for(b, fn):
    k = OT.SPECS[fn].kind
    if k in ("u1", "m1"):
        return B.g_unary(b, fn)
    if k in ("m1p", "glu", "softmax"):
        return B.g_param_act(b, fn)
    if k == "u2":
        return B.g_binary(b, fn)
    if k == "matmul":
        return B.g_matmul(b)
    if k == "seq":
        return B.g_seq(b, fn)
    if k == "multi_matmul":
        return B.g_multi_matmul(b)
    if k == "reduce":
        return B.g_reduce(b, fn)
    if k == "cum":
        return B.g_cum(b, fn)
    if k == "norm":
        return B.g_norm(b)
    if k == "einsum":
        return B.g_einsum(b)
    if k == "getitem":
        return B.g_getitem(b)
    if k == "where":
        return B.g_where(b)
    if k == "clip":
        return B.g_clip(b)
    if k == "join":
        return B.g_join(b, fn)
    if k == "repeat":
        return B.g_repeat(b)
    if k == "conv":
        return B.g_conv(b)
    if k == "pool":
        return B.g_pool(b)
    if k == "batchnorm":
        return B.g_batchnorm(b)
    if k == "gru":
        return B.g_gru(b)
    if k == "loss":
        return B.g_loss(b, fn)
    if k in SHAPE_KINDS or fn in SHAPE_KINDS:
        return B.g_shape(b, fn=k if k in SHAPE_KINDS else fn)
    raise KeyError(fn)


def gen_setitem(rng):
    """u -> t = u*1.5 ; t[index] = value (tensor / array / scalar; every index kind incl. repeated integer indices of any integer
    dtype and boolean masks) ; t.backward(dense cotangent): gradients of u (old contents) and of the value are judged."""
    from mgverif.gen import inplace as GI
    for _ in range(40):
        b = B.Builder(rng)
        shape = B.rand_shape(rng, 3, 4, 1)
        u = b.leaf(shape)
        t = b.call("multiply", [B.R(u), 1.5], sp="op", prefix="t")
        if t is None or not GI.s_setitem(b, t, adv_prob=0.6):
            continue
        seed = enc_arr(B.rand_values(rng, shape, 0.3, 1.5))
        b.prog.append({"k": "backward", "tgt": t, "seed": seed})
        return {"kind": "op", "fn": "setitem", "prog": b.prog, "L": t, "dtype": "float64", "cseed": rng.randrange(1 << 30)}
    return None


STRESS = {  # large-magnitude operands at which the function is perfectly well conditioned (a naive backward formula overflows)
    "logaddexp": (300.0, 900.0), "logaddexp2": (300.0, 900.0), "softmax": (100.0, 600.0), "logsoftmax": (100.0, 600.0),
    "softmax_crossentropy": (100.0, 600.0), "sigmoid": (20.0, 40.0), "tanh": (15.0, 30.0), "nnet_tanh": (15.0, 30.0), "arctan": (1e2, 5e3),
    "arcsinh": (1e2, 5e3), "soft_sign": (1e2, 5e3), "log1p": (1e2, 5e3), "log": (1e2, 5e3), "sqrt": (1e2, 5e3), "cbrt": (1e2, 5e3),
    "reciprocal": (1e2, 5e3), "arccot": (1e2, 5e3), "arccsch": (1e2, 5e3), "sech": (8.0, 20.0), "coth": (8.0, 20.0), "softmax_focal_loss": (50.0, 300.0),
}


ZERO_FNS = ("prod", "cumprod", "multiply_sequence", "multiply")
TWO_BRANCH = ("reciprocal", "cot", "csc", "arccsc", "arcsec", "arccoth", "coth", "csch", "arccot", "arccsch", "cbrt")
# value placed at masked-out positions of a where= call: a point where the function or its derivative is not finite
MASKED_POLES = {"log": 0.0, "log2": 0.0, "log10": 0.0, "sqrt": 0.0, "reciprocal": 0.0, "cbrt": 0.0, "log1p": -1.0, "arccosh": 1.0, "arcsin": 1.0,
                "arccos": -1.0, "arctanh": 1.0, "divide": 0.0, "power": 0.0}


def gen_single(rng, fn, force_empty=False, k=0):
    if fn == "setitem":
        return gen_setitem(rng)
    spec = OT.SPECS[fn]
    stress = fn in STRESS and k % 6 == 5
    for _ in range(40):
        r = rng.random()
        dtype = "float64" if (r < 0.85 or fn == "gru") else ("float32" if r < 0.97 else "float16")
        b = B.Builder(rng, dtype=dtype)
        b.npint_args = True
        b.conv_documented = True   # every documented-valid conv configuration, incl. those of the recorded over-reject finding
        b.allow_empty = force_empty or rng.random() < 0.04
        shape = B.rand_shape(rng, 3, 4, 0 if b.allow_empty else 1)
        want_nd = [0, 1, 2, 3, 3, 2][k % 6]
        if len(shape) != want_nd and not b.allow_empty:
            shape = tuple(rng.randint(1, 3 if want_nd == 3 else 4) for _ in range(want_nd))
        if spec.kind in ("matmul", "multi_matmul", "norm", "softmax", "glu", "cum", "join") and len(shape) == 0:
            shape = (rng.randint(1, 3),)
        if spec.kind == "glu":
            shape = shape[:-1] + (rng.choice([2, 4]),)
        lo, hi, signed = 0.3, 2.0, True
        if fn in B.ADAPT:
            lo, hi = B.ADAPT[fn]
            # functions whose domain has a negative branch as well (|x| beyond a bound): operands of either sign, element by element
            signed = fn in TWO_BRANCH and k % 2 == 1
        if fn == "power":
            lo, hi, signed = 0.5, 2.5, False
        if stress:
            lo, hi = STRESS[fn]
            signed = fn not in ("log", "sqrt", "log1p", "reciprocal", "cbrt")
            dtype = "float64"
            b.dtype = "float64"
        n_leaves = 1 if spec.kind in ("u1", "m1", "m1p", "reduce", "cum", "norm", "glu", "softmax") else rng.randint(1, 2)
        for i in range(n_leaves):
            shp = shape if i == 0 or rng.random() < 0.4 else B.bcast_variants(rng, shape)
            n = b.leaf(shp, lo=lo, hi=hi, signed=signed, constant=None if i == 0 else rng.choice([None, None, True]))
            if rng.random() < 0.3:
                b.prog[-1]["nocopy"] = True
        if fn == "power" and k % 6 == 2:
            # base elements exactly 0 with constant integer exponents >= 1 (x**1 at 0 has derivative 1, x**2 and x**3 have 0): the general
            # Power op through mg.power / np.power / ** with an array exponent
            base_st = next(st for st in b.prog if st["k"] == "leaf")
            arr = b.it.env[base_st["out"]]
            flat = list(base_st["data"])
            for j in rng.sample(range(len(flat)), min(len(flat), rng.randint(1, 2))) if flat else []:
                flat[j] = 0.0
            base_st["data"], base_st["layout"] = flat, "C"
            base_st.pop("nocopy", None)
            b.it.env[base_st["out"]] = np.array(flat, dtype=arr.dtype).reshape(arr.shape)
            ex = np.array([rng.choice([1, 1, 2, 3]) for _ in range(max(1, arr.size))]).reshape(arr.shape if arr.size else ())
            for st in b.prog[1:]:
                if st["k"] == "leaf":
                    b.it.env.pop(st["out"], None)
            b.prog[:] = [base_st]
            b.meta = {base_st["out"]: b.meta[base_st["out"]]}
            out = b.call("power", [B.R(base_st["out"]), enc_arr(ex.astype(rng.choice(["int64", "float64"])))], sp=rng.choice(["mg", "np", "op"]))
            if out is None:
                continue
            Lv = b.val(out)
            seed = enc_arr(B.rand_values(rng, np.shape(Lv), 0.3, 1.5)) if np.size(Lv) else None
            b.prog.append({"k": "backward", "tgt": out, "seed": seed})
            return {"kind": "op", "fn": fn, "prog": b.prog, "L": out, "dtype": dtype, "cseed": rng.randrange(1 << 30)}
        if fn == "power" and k % 6 == 4:
            # the operator's scalar fast paths (x ** 1, x ** 2 run Positive / Square): every CARRIER of the exponent - Python number, NumPy
            # scalar, 0-d array, 0-d constant tensor, 0-d TRAINABLE tensor (which must get its gradient: never a fast path) - at the values the
            # fast paths test for and next to them, through every spelling
            base_st = next(st for st in b.prog if st["k"] == "leaf")
            for st in b.prog[1:]:
                if st["k"] == "leaf":
                    b.it.env.pop(st["out"], None)
            b.prog[:] = [base_st]
            b.meta = {base_st["out"]: b.meta[base_st["out"]]}
            fixed = [("tvar", 1, "op"), ("tvar", 2, "op"), ("tconst", 2, "op"), ("py", 1, "op"), ("py", 2, "op"), ("npscalar", 2, "op"), ("arr0", 1, "op"),
                     ("tvar", 2, "mg"), ("tvar", 1, "np"), ("tconst", 1, "op"), ("arr0", 2, "op"), ("npscalar", 1, "op")]
            if k // 6 < len(fixed):
                carrier, val, sp_ = fixed[k // 6]      # the first dozen combinations are always present, the rest are drawn
            else:
                carrier, val, sp_ = rng.choice(["py", "npscalar", "arr0", "tconst", "tvar", "tvar"]), rng.choice([1, 2, 1, 2, 3, 0.5]), rng.choice(["op", "op", "mg", "np"])
            if carrier == "py":
                ex = val if rng.random() < 0.5 else float(val)
            elif carrier == "npscalar":
                ex = ["s", rng.choice(["float64", "float32"]) if val == 0.5 else rng.choice(["int64", "float64", "float32"]), val]
            elif carrier == "arr0":
                ex = enc_arr(np.array(val, dtype=rng.choice(["float64", "float32"])))
            else:
                n = b.leaf((), values=np.array(float(val)), constant=True if carrier == "tconst" else None)
                ex = B.R(n)
            out = b.call("power", [B.R(base_st["out"]), ex], sp=sp_)
            if out is None:
                continue
            Lv = b.val(out)
            seed = enc_arr(B.rand_values(rng, np.shape(Lv), 0.3, 1.5)) if np.size(Lv) else None
            b.prog.append({"k": "backward", "tgt": out, "seed": seed})
            return {"kind": "op", "fn": fn, "prog": b.prog, "L": out, "dtype": dtype, "cseed": rng.randrange(1 << 30)}
        if fn in ZERO_FNS and k % 3 == 1:
            # exact zeros among the factors (0, 1 or several per lane): the product is a polynomial, differentiable there, and the
            # backward pass has dedicated branches for it; signs mixed as well
            for st in b.prog:
                if st["k"] == "leaf" and st["data"]:
                    arr = b.it.env[st["out"]]
                    flat = list(st["data"])
                    for j in range(len(flat)):
                        if rng.random() < 0.5:
                            flat[j] = -flat[j]
                    for j in rng.sample(range(len(flat)), min(len(flat), rng.randint(1, 3))):
                        flat[j] = 0.0
                    st["data"] = flat
                    st["layout"] = "C"
                    st.pop("nocopy", None)
                    b.it.env[st["out"]] = np.array(flat, dtype=arr.dtype).reshape(arr.shape)
        if rng.random() < 0.25 and spec.kind == "u2":
            b.leaf(B.bcast_variants(rng, shape), kind="array")
        # where= mask with out= for ufuncs
        if spec.npf is not None and spec.kind in ("u1", "u2") and rng.random() < 0.25 and dtype == "float64":
            out = _gen_uout(b, rng, fn, shape, lo, hi, signed)
        else:
            n0 = len(b.prog)
            try:
                OT.DOMAIN_CHECKS = not stress
                out = _gen_for(b, fn)
            except (IndexError, ValueError, ZeroDivisionError):  # generator could not build this op on these (e.g. empty) operands
                out = None
            finally:
                OT.DOMAIN_CHECKS = True
            if out is not None and not any(st.get("fn") == fn for st in b.prog[n0:]):
                out = None
        if out is None or not b.meta[out]["nonconst"]:
            continue
        Lv = b.val(out)
        seed = enc_arr(B.rand_values(rng, np.shape(Lv), 0.3, 1.5)) if np.size(Lv) else None
        b.prog.append({"k": "backward", "tgt": out, "seed": seed})
        return {"kind": "op", "fn": fn, "prog": b.prog, "L": out, "dtype": dtype, "cseed": rng.randrange(1 << 30)}
    return None


def _gen_uout(b, rng, fn, shape, lo, hi, signed):
    spec = OT.SPECS[fn]
    u = b.leaf(shape, lo=0.3, hi=2.0)
    t0 = b.call("multiply", [B.R(u), 1.5], sp="op", prefix="t")
    if t0 is None:
        return None
    args = []
    for i in range(spec.nargs):
        shp = shape if rng.random() < 0.5 else B.bcast_variants(rng, shape)
        args.append(B.R(b.leaf(shp, lo=lo, hi=hi, signed=signed, constant=rng.choice([None, None, True]))))
    if spec.nargs == 2 and rng.random() < 0.3:
        args[rng.randrange(2)] = round(rng.uniform(0.5, 2.0), 3)
    vals = [b.it.dec(a) for a in args]
    if not spec.in_domain(*vals):
        return None
    kw = {}
    if rng.random() < 0.8:
        ms = shape if rng.random() < 0.5 else B.bcast_variants(rng, shape)
        kw["where"] = enc_arr(np.array([rng.random() < 0.5 for _ in range(int(np.prod(ms, dtype=int)))], dtype=bool).reshape(ms))
    if "where" in kw and fn in MASKED_POLES and rng.random() < 0.7:
        # the reason people mask: operand values OUTSIDE the function's domain (a pole / a non-finite derivative) at masked-out
        # positions, as in log(x, where=x > 0, out=z). Those elements take no part: their gradient is exactly zero.
        mask = np.broadcast_to(np.array(kw["where"][3], dtype=bool).reshape(kw["where"][2]), shape)
        for a in args:
            if isinstance(a, list) and a[:1] == ["r"]:
                st = next(q for q in b.prog if q.get("out") == a[1])
                arr = b.it.env[a[1]]
                if st["k"] == "leaf" and arr.shape == tuple(shape):
                    new_vals = np.where(mask, arr, MASKED_POLES[fn]).astype(arr.dtype)
                    st["data"] = new_vals.ravel().tolist()
                    st["layout"] = "C"
                    st.pop("nocopy", None)
                    b.it.env[a[1]] = new_vals
                    break
    with np.errstate(all="ignore"):
        if not b.emit({"k": "uout", "fn": fn, "a": args, "kw": kw, "tgt": t0, "sp": rng.choice(["mg", "np"])}, check=False):
            return None
    return t0


def enumerate_cases(cfg, seed):
    """All (spec, k) pairs. The gru cases (numba JIT: seconds of compilation per process) are placed at indices that are
    multiples of 16 so that, with the default 16 shards, a single shard pays for the compilation."""
    def mk(fn, k):
        rng = random.Random(case_seed(seed, "C02:" + fn, k))
        return gen_single(rng, fn, force_empty=(k % 12 == 11), k=k)
    others = [(fn, k) for fn in sorted(OT.SPECS) + ["setitem"] if fn != "gru" for k in range(cfg["per_spec"] * (12 if fn == "setitem" else 1))]
    grus = [("gru", k) for k in range(max(6, cfg["per_spec"] // 4))]
    i = 0
    while others or grus:
        if i % 16 == 0 and grus:
            yield mk(*grus.pop())
        elif others:
            yield mk(*others.pop())
        elif i % 16 == 0:
            yield mk(*grus.pop())
        else:
            yield None
        i += 1
    for kid in KINKS:
        yield {"kind": "kink", "id": kid}


# ------------------------------------------------------------------------------------------------ kink conventions
def run_kink(kid):
    import mygrad as mg
    viol = []

    def expect(name, got, want):
        got = np.asarray(got)
        want = np.asarray(want, dtype=float)
        if got.shape != want.shape or not np.array_equal(got, want, equal_nan=True):
            viol.append({"monitor": "kink-convention", "mech": f"kink:{kid}", "msg": f"{kid}: {name} = {got.tolist()} expected {want.tolist()}"})

    g = np.array([2.0, 3.0, 5.0])
    if kid in ("abs0", "absolute0"):
        x = mg.tensor([-1.5, 0.0, 2.0])
        (mg.abs(x) if kid == "abs0" else mg.absolute(x)).backward(g)
        expect("x.grad", x.grad, [-2.0, 0.0, 5.0])
    elif kid == "abs0_nan":
        x = mg.tensor([-1.5, 0.0, 2.0])
        mg.abs(x, nan_to_num=False).backward(g)
        expect("x.grad", x.grad, [-2.0, np.nan, 5.0])
    elif kid in ("max_tie", "min_tie"):
        f = mg.maximum if kid == "max_tie" else mg.minimum
        x = mg.tensor([1.0, 2.0, 3.0])
        y = mg.tensor([2.0, 2.0, 2.0])
        f(x, y).backward(g)
        if kid == "max_tie":
            expect("x.grad", x.grad, [0.0, 0.0, 5.0]); expect("y.grad", y.grad, [2.0, 0.0, 0.0])
        else:
            expect("x.grad", x.grad, [2.0, 0.0, 0.0]); expect("y.grad", y.grad, [0.0, 0.0, 5.0])
    elif kid == "max_tie_bcast":
        x = mg.tensor([[1.0, 2.0, 3.0], [2.0, 2.0, 2.0]])
        y = mg.tensor(2.0)
        mg.maximum(x, y).backward(np.ones((2, 3)))
        expect("x.grad", x.grad, [[0.0, 0.0, 1.0], [0.0, 0.0, 0.0]]); expect("y.grad", y.grad, 1.0)
    elif kid in ("arcsin1", "arccos1"):
        f = mg.arcsin if kid == "arcsin1" else mg.arccos
        x = mg.tensor([-1.0, 0.0, 1.0])
        with np.errstate(all="ignore"):
            f(x).backward(g)
        s = 1.0 if kid == "arcsin1" else -1.0
        expect("x.grad", x.grad, [0.0, s * 3.0, 0.0])
    elif kid in ("arccsc1", "arcsec1"):
        f = mg.arccsc if kid == "arccsc1" else mg.arcsec
        x = mg.tensor([-1.0, 2.0, 1.0])
        with np.errstate(all="ignore"):
            f(x).backward(g)
        s = -1.0 if kid == "arccsc1" else 1.0
        expect("x.grad", x.grad, [0.0, s * 3.0 / (2.0 * np.sqrt(3.0)), 0.0])
    elif kid == "clip_edge":
        x = mg.tensor([-2.0, 0.5, 3.0])
        mg.clip(x, -1.0, 1.0).backward(g)
        expect("x.grad", x.grad, [0.0, 3.0, 0.0])
    elif kid == "relu0":
        from mygrad.nnet.activations import relu
        x = mg.tensor([-1.0, 0.0, 2.0])
        relu(x).backward(g)
        expect("x.grad", x.grad, [0.0, 0.0, 5.0])
    return {"viol": viol, "counters": {"kink_checks": 1}, "sig": "kink:" + kid, "sets": {"kinks": [kid]}}


def gradinv(env, cnt, viol):
    for n, t in env.items():
        if not mgrun.is_tensor(t):
            continue
        g = t.grad
        cnt["gradinv_checks"] = cnt.get("gradinv_checks", 0) + 1
        if g is None:
            continue
        if t.constant:
            viol.append({"monitor": "M-gradinv", "mech": "constant-has-grad", "msg": f"constant tensor {n} holds a gradient"})
        elif type(g) is not np.ndarray or g.shape != t.shape or g.dtype != t.dtype:
            viol.append({"monitor": "M-gradinv", "mech": "grad-shape-dtype", "gshape": list(getattr(g, "shape", ())), "tshape": list(t.shape),
                         "gdtype": str(getattr(g, "dtype", "")), "tdtype": str(t.dtype),
                         "msg": f"{n}.grad is {type(g).__name__} shape {getattr(g, 'shape', None)} dtype {getattr(g, 'dtype', None)}; tensor is {t.shape} {t.dtype}"})


def run_case(case):
    if case["kind"] == "kink":
        return run_kink(case["id"])
    prog, fn = case["prog"], case["fn"]
    bw = len(prog) - 1
    rng = random.Random(case.get("cseed", 0))
    REG.reset()
    it = Interp("mg")
    cnt, viol, sets = {}, [], {}
    feats = features(case)
    try:
        with np.errstate(all="ignore"):
            it.run(prog, catch=False)
    except Exception as e:
        return {"viol": [{"monitor": "mg-raised", "mech": f"raises:{fn}:{type(e).__name__}", "feats": feats,
                          "msg": f"{fn} {feats}: {type(e).__name__}: {e}"}], "sets": {"fns": [fn]}}
    gradinv(it.env, cnt, viol)
    grads = mgrun.snapshot_grads(it.env)
    M = REG.max_abs_grad
    sh = Shadow(prog).run_all()
    if sh.raised:
        return {"viol": [{"monitor": "harness", "mech": "shadow-raised", "msg": repr(sh.raised)}]}
    tol = {"float64": (1e-9, 1e-12), "float32": (1e-4, 1e-5), "float16": (2e-2, 2e-2)}[case["dtype"]]
    for n, v in it.env.items():
        if mgrun.is_tensor(v) and n in sh.it.env and v.dtype.kind == "f" and not mgrun.values_close(v.data, sh.it.env[n], *tol):
            return {"viol": [], "counters": {"cross_forward_mismatch": 1}, "skip": "forward-mismatch (judged by C03)", "sets": {"fns": [fn]}}
    tau = {"float64": 1e-11, "float32": 2e-5, "float16": 2e-2}[case["dtype"]]
    names = [n for n, v in it.env.items() if mgrun.is_tensor(v) and not v.constant and v.dtype.kind == "f" and n in sh.owner and n != case["L"]]
    v1, c1 = check_grads(prog, (), sh, grads, bw, names, rng, tau=tau, M=M, full_upto=6, nrand=3)
    for v in v1:
        v["mech"] = f"vjp:{fn}"
    viol += v1
    cnt.update({k: cnt.get(k, 0) + v for k, v in c1.items()})
    cnt["fd_skipped"] = cnt.get("fd_kink", 0) + cnt.get("fd_illcond", 0)
    sets["fns"] = [fn]
    sets["opclasses"] = sorted(REG.opclasses)
    sets["features"] = feats
    call = next((st for st in prog if st.get("fn") == fn), {})
    sig = repr((fn, call.get("sp"), tuple(sorted(call.get("kw", {}))), feats, call.get("k")))
    return {"viol": viol[:4], "counters": cnt, "sets": sets, "sig": sig, "nontrivial": cnt.get("fd_dirs", 0) >= 1}


def features(case):
    f = set()
    for st in case["prog"]:
        if st["k"] == "leaf":
            if 0 in st["shape"]:
                f.add("empty")
            if len(st["shape"]) == 0:
                f.add("0-d")
            if st.get("nocopy") and st.get("layout") in ("strided", "neg", "F", "T"):
                f.add("noncontig")
            f.add(st["dtype"])
        if st["k"] == "uout":
            f.add("out=")
            if "where" in st.get("kw", {}):
                f.add("where=")
        if st["k"] == "call":
            s = repr(st)
            if "'s', 'int64'" in s or '"s", "int64"' in s:
                f.add("npint")
    return sorted(f)


def classify_layers(v, case):
    """Mechanism keys of the two recorded nnet findings (shared with C12/C14/C16)."""
    m = v.get("mech") or v["monitor"]
    prog = case.get("prog", [])
    has = lambda fn: any(st.get("fn") == fn for st in prog)
    if m == "grad-shape-dtype" and has("gru") and v.get("gdtype") == v.get("tdtype") and len(v.get("tshape", [])) == 3 \
            and v.get("gshape") == [v["tshape"][0] - 1] + v["tshape"][1:]:
        return "gru-hidden-grad-shape"
    if m.startswith("raises:conv_nd:ValueError") and "dilated window" in v.get("msg", ""):
        return "conv-dilation-overreject"
    return None


def classify(v, case):
    m = v.get("mech") or v["monitor"]
    lay = classify_layers(v, case)
    if lay:
        return lay
    feats = v.get("feats") or []
    if m == "raises:repeat:TypeError" and "npint" in feats:
        return "repeat-npint"
    if m == "raises:repeat:ValueError" and "empty" in feats:
        return "repeat-empty-backward"
    return m


def extra_coverage(agg):
    reached = set(agg["sets"].get("opclasses", {}))
    allops = sorted(c.__name__ for c in all_operation_subclasses() if not c.__name__.startswith("_") and not getattr(c, "__abstractmethods__", None))
    return {"operation_classes_total": len(allops), "operation_classes_reached": len([c for c in allops if c in reached]),
            "operation_classes_unreached": [c for c in allops if c not in reached], "specs": len(OT.SPECS)}

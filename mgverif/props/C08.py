"""C08 — memory guard: arrays in a live graph are read-only, and restored afterwards."""
import gc
import random
import sys
import weakref

import numpy as np

from mgverif.hooks import REG, root_array
from mygrad.errors import InvalidBackprop

PID = "C08"
LEVEL = "exploration"
RULE = ("seeded histories over pools of user arrays (own memory / F / strided views / views of views / natively read-only) and tensors (copies, "
        "copy=False wrappers of user arrays, constant or not, tensor views): unary/binary/n-ary ops mixing tensors and raw arrays and the same "
        "array several times, view ops, out=ndarray, out=Tensor, set-item and augmented in-place updates, failing ops, ops inside mem_guard_off / "
        "no_autodiff / mem_guard_on, NumPy views taken by the user while an array is locked; then backward, clear_graph, del of names in random "
        "order, gc, results parked in reference cycles so that they die only at a collection. After EVERY statement and at quiescence M-locks "
        "evaluates, from observed liveness (weakrefs to every Operation created), I1: a live op recorded by a guarded+tracked statement whose "
        "whole upstream is uncleared has all its arrays (inputs, their bases, out=, output and its base) read-only; I2: an array to which no live "
        "op refers (nor to its owner) has its original writeable flag (owner's original for views taken while locked; natively read-only stays "
        "read-only); at full quiescence every array ever seen is back to its original flag. Thorough adds GC injection: gc.collect() fired from "
        "sys.monitoring PY_START/PY_RESUME events (function entry and generator resumption: eval-breaker checks, where CPython itself runs a pending collection) inside tensor_base.py / lock_management.py frames. Non-trivial: >=3 guarded ops and >=1 "
        "release; distinct = hash of the (lock|unlock) event-role sequence = interleavings seen. Histories also contain the orphan pattern (a consumed tensor whose graph is cleared and which is then updated in "
        "place while its consumer lives: the array the consumer was recorded with then belongs to a placeholder only). At quiescence the "
        "lock tables are inspected; if they still know ids of arrays that are gone, fresh user arrays are allocated until one REUSES such "
        "an id, given a native flag (read-only / writeable), run through a guarded operation and dropped: the flag must be back (id-reuse probe).")
ASSUMPTIONS = ["between 'upstream partly cleared' and 'operation dead' the flag is unspecified and not judged",
               "internal table residue (_array_tracker) is not judged, only flags"]
TIERS = {"quick": {"cases": 2500, "nst": (4, 14), "gcinject": 0.05}, "thorough": {"cases": 16000, "nst": (6, 30), "gcinject": 0.07}}
FLOORS = {"quick": {"I1_evals": 20000, "I2_evals": 40000, "quiescent_arrays": 8000, "reuse_probes": 40},
          "thorough": {"I1_evals": 100000, "I2_evals": 200000, "quiescent_arrays": 40000, "reuse_probes": 200}}

UN = ["exp", "sin", "tanh", "negative", "square"]
BI = ["add", "multiply", "subtract", "maximum"]


def gen_case(rng, cfg, idx):
    st = []
    arrs, tens = [], []   # names
    shapes = {}
    n = 0

    def new(p):
        nonlocal n
        n += 1
        return f"{p}{n}"

    shape = tuple(rng.randint(1, 3) for _ in range(rng.randint(1, 2)))
    for _ in range(rng.randint(1, 3)):
        a = new("a")
        st.append(["arr", a, list(shape), rng.random() < 0.15, rng.choice(["C", "C", "F", "strided", "reshaped"])])
        arrs.append(a)
        shapes[a] = shape
    if rng.random() < 0.5:
        src = rng.choice(arrs)
        v = new("a")
        st.append(["aview", v, src, "full" if rng.random() < 0.5 else "T"])
        arrs.append(v)
        shapes[v] = shapes[src] if st[-1][3] == "full" else shapes[src][::-1]
    for _ in range(rng.randint(1, 3)):
        t = new("t")
        src = rng.choice(arrs)
        st.append(["tensor", t, src, rng.random() < 0.5, rng.choice([None, None, True])])
        tens.append(t)
        shapes[t] = shapes[src]
    nst = rng.randint(*cfg["nst"])
    results = []
    for _ in range(nst):
        pool = arrs + tens + results
        live_t = tens + results
        r = rng.random()
        same = lambda s: [p for p in pool if shapes.get(p) == s]
        if r < 0.38 and live_t:
            x = rng.choice(live_t)
            s = shapes[x]
            out = new("r")
            ctx = rng.choice([None, None, None, None, "mem_guard_off", "no_autodiff", "mem_guard_on"])
            c = rng.random()
            if c < 0.35:
                st.append(["op", out, rng.choice(UN), [x], None, ctx])
            elif c < 0.8:
                y = rng.choice(same(s))
                ops = [x, y]
                rng.shuffle(ops)
                st.append(["op", out, rng.choice(BI), ops, None, ctx])
            else:
                ops = [x] + [rng.choice(same(s)) for _ in range(rng.randint(1, 3))]
                rng.shuffle(ops)
                st.append(["op", out, "add_sequence", ops, None, ctx])
            shapes[out] = s
            results.append(out)
        elif r < 0.46 and live_t:
            x = rng.choice(live_t)
            out = new("r")
            st.append(["tview", out, x, rng.choice(["full", "T", "first"])])
            s = shapes[x]
            shapes[out] = s if st[-1][3] == "full" else (s[::-1] if st[-1][3] == "T" else s[1:])
            results.append(out)
        elif r < 0.54 and live_t:
            x = rng.choice(live_t)
            s = shapes[x]
            cand = [a for a in arrs if shapes.get(a) == s]
            if cand and rng.random() < 0.4:
                o = rng.choice(cand)    # an existing user array (possibly a view, possibly with views of its own used elsewhere) as the target
            else:
                o = new("a")
                st.append(["arr", o, list(s), False, "C"])
                arrs.append(o)
                shapes[o] = s
            out = new("r")
            st.append(["op", out, rng.choice(BI), [x, rng.choice(same(s))], o, None])
            shapes[out] = s
            results.append(out)
        elif r < 0.64 and live_t:
            x = rng.choice(live_t)
            s = shapes[x]
            st.append(["inplace", x, rng.choice(["setitem", "iadd", "imul", "outtensor"]), rng.choice(same(s) + [None])])
        elif r < 0.69 and live_t:
            if rng.random() < 0.5:
                st.append(["fail", rng.choice(live_t), rng.choice(arrs)])
            else:   # failure AFTER the kernel ran (result tensor rejected), with a repeated / view / raw-array operand
                st.append(["fail_late", rng.choice(live_t + arrs), rng.choice(["dtype", "dtype_repeat", "int_const"])])
        elif r < 0.73 and arrs:
            src = rng.choice(arrs)
            v = new("a")
            how = "full"
            if len(shapes[src]) >= 1 and shapes[src][0] >= 2 and rng.random() < 0.5:
                how = rng.choice(["lo", "hi"])
            st.append(["aview", v, src, how])
            arrs.append(v)
            k0 = shapes[src][0] if len(shapes[src]) else 1
            shapes[v] = shapes[src] if how == "full" else ((k0 // 2 if how == "lo" else k0 - k0 // 2),) + tuple(shapes[src][1:])
        elif r < 0.76 and len(arrs) > 1:
            # the user drops one of their arrays (often a view) and allocates a fresh one, possibly read-only, right away: CPython hands
            # out the freed object's address again, so stale id-keyed bookkeeping would now point at an unrelated array
            x = rng.choice(arrs[1:])
            arrs.remove(x)
            st.append(["del", x])
            a = new("a")
            st.append(["arr", a, list(shapes[x]), rng.random() < 0.5, "C"])
            arrs.append(a)
            shapes[a] = shapes[x]
        elif r < 0.83 and results:
            st.append(["backward", rng.choice(results)])
        elif r < 0.87 and results:
            st.append(["clear", rng.choice(results)])
        elif r < 0.95 and (results or tens):
            x = rng.choice(results + tens)
            if rng.random() < 0.25:
                st.append(["cycle", x])
            st.append(["del", x])
            (results if x in results else tens).remove(x)
        elif r < 0.962 and live_t:
            # one user buffer, its two halves as separate views: one half is an operand, the other the out= target of the same operation,
            # and the halves / the buffer take part in further graphs that are dropped in any order
            nd = [t_ for t_ in live_t if len(shapes[t_]) >= 1]      # (a 0-d tensor has no halves)
            if not nd:
                continue
            x = rng.choice(nd)
            s = shapes[x]
            buf = new("a")
            st.append(["arr", buf, [2 * s[0]] + list(s[1:]), False, "C"])
            lo, hi = new("a"), new("a")
            st.append(["aview", lo, buf, "lo"])
            st.append(["aview", hi, buf, "hi"])
            for q in (buf, lo, hi):
                arrs.append(q)
            shapes[buf] = (2 * s[0],) + tuple(s[1:])
            shapes[lo] = shapes[hi] = s
            out = new("r")
            st.append(["op", out, rng.choice(BI), [lo, x] if rng.random() < 0.5 else [x, lo], hi, None])
            shapes[out] = s
            results.append(out)
            if rng.random() < 0.6:
                out2 = new("r")
                st.append(["op", out2, rng.choice(UN + BI[:1]), [rng.choice([lo, hi])] * (1 if st[-1] else 1), None, None]
                          if False else ["op", out2, rng.choice(UN), [rng.choice([lo, hi])], None, None])
                shapes[out2] = s
                results.append(out2)
        elif r < 0.975 and results:
            # a consumed tensor whose graph is cleared and which is then updated in place while its consumer is still alive: the array the
            # consumer was recorded with now belongs to an internal placeholder only and can die before the consumer releases it
            x = rng.choice(results)
            out = new("r")
            st.append(["op", out, rng.choice(UN), [x], None, None])
            shapes[out] = shapes[x]
            results.append(out)
            st.append([rng.choice(["clear", "backward"]), x])
            st.append(["inplace", x, rng.choice(["imul", "iadd", "setitem", "outtensor"]), rng.choice([x, None])])
            if rng.random() < 0.5:
                out2 = new("r")
                st.append(["op", out2, rng.choice(UN), [out], None, None])
                shapes[out2] = shapes[out]
                results.append(out2)
                st.append([rng.choice(["clear", "backward"]), out2])
        elif r < 0.985:
            # a NumPy view taken while its owner is locked (born read-only), the locking graph then dropped (owner writeable again, the view
            # still read-only): view and owner are handed to one operation in EITHER order, which is dropped or back-propagated - the view ends
            # up with its owner's original flag
            o = new("a")
            s = (rng.randint(2, 3),)
            st.append(["arr", o, list(s), False, "C"])
            shapes[o] = s
            g = new("r")
            st.append(["op", g, rng.choice(UN), [o], None, None])
            v = new("a")
            st.append(["aview", v, o, "full"])
            shapes[v] = s
            st.append(["del", g])
            arrs.extend([o, v])
            out = new("r")
            ops = [v, o] if rng.random() < 0.6 else [o, v]
            if rng.random() < 0.5 and same(s):
                ops.insert(rng.randint(0, 2), rng.choice(same(s)))
            st.append(["op", out, "add_sequence" if len(ops) > 2 else rng.choice(BI), ops, None, None])
            shapes[out] = s
            if rng.random() < 0.5:
                st.append([rng.choice(["backward", "del"]), out])
                if st[-1][0] == "backward":
                    results.append(out)
            else:
                results.append(out)
        else:
            st.append(["gc"])
    # drop order: random permutation of everything that is left
    rest = tens + results
    rng.shuffle(rest)
    for x in rest:
        if rng.random() < 0.2:
            st.append(["cycle", x])
        st.append(["del", x])
        if rng.random() < 0.2:
            st.append(["gc"])
    return {"st": st, "gcinject": cfg.get("gcinject", 0.0) if rng.random() < (0.5 if cfg.get("tier") == "thorough" else 0.1) else 0.0,
            "gseed": rng.randrange(1 << 30)}


class Monitor:
    def __init__(self):
        self.arrays = {}     # id -> (weakref, original flag, name)
        self.opguard = {}    # id(op) -> (weakref(op), guarded&tracked statement?)
        self.oprefs = {}     # id(op) -> weakrefs of the arrays it was recorded with
        self.pending = {}    # id(view) -> (weakref, original flag) for user views not yet handed to MyGrad
        self.viol = []
        self.cnt = {"I1_evals": 0, "I2_evals": 0, "quiescent_arrays": 0, "guarded_ops": 0}

    def note_user_view(self, v):
        """A NumPy view taken by the user: not in I2's range until it is handed to MyGrad, but its 'original' flag is fixed now:
        the owner's original flag if the owner is locked at this moment, its own flag otherwise."""
        b = v.base
        if isinstance(b, np.ndarray) and id(b) in self.arrays and self.arrays[id(b)][0]() is b and self.arrays[id(b)][1] and not b.flags.writeable:
            o = True
        elif id(b) in self.pending and self.pending[id(b)][0]() is b:
            o = self.pending[id(b)][1]
        else:
            o = bool(v.flags.writeable)
        self.pending[id(v)] = (weakref.ref(v), o)

    def see(self, arr, name, orig=None):
        """Register an array (and its ndarray bases) with its original writeable flag, at first sight."""
        chain = []
        a = arr
        while isinstance(a, np.ndarray):
            chain.append(a)
            a = a.base
        for a in reversed(chain):
            if id(a) in self.arrays and self.arrays[id(a)][0]() is a:
                continue
            if id(a) in self.pending and self.pending[id(a)][0]() is a:
                o = self.pending[id(a)][1]
            elif orig is not None:
                o = orig
            elif isinstance(a.base, np.ndarray) and id(a.base) in self.arrays and self.arrays[id(a.base)][0]() is a.base \
                    and self.arrays[id(a.base)][1] and not a.base.flags.writeable:
                # a view first seen while its (originally writeable) owner is locked counts as having the owner's original flag
                o = True
            else:
                o = bool(a.flags.writeable)
            try:
                self.arrays[id(a)] = (weakref.ref(a), o, name)
            except TypeError:
                pass

    def op_refs(self, op):
        import mygrad as mg
        out = []
        try:
            vs = tuple(op.variables)
        except Exception:
            vs = ()
        for v in vs:
            d = v.data
            out.append(d)
            if isinstance(d.base, np.ndarray):
                out.append(d.base)
        return out

    def record_refs(self, op, outs):
        refs = self.op_refs(op)
        for t in outs:
            refs.append(t.data)
            if isinstance(t.data.base, np.ndarray):
                refs.append(t.data.base)
        self.oprefs[id(op)] = [weakref.ref(a) for a in refs]

    def uncleared(self, op, seen=None):
        seen = seen or set()
        if id(op) in seen:
            return True
        seen.add(id(op))
        try:
            vs = tuple(op.variables)
        except Exception:
            return False
        for v in vs:
            if not any(r() is op for r in v._ops):
                return False
            if v._creator is not None and not self.uncleared(v._creator, seen):
                return False
        return True

    def check(self, where, tensors_alive):
        live_ops = [(r(), g) for r, g in self.opguard.values() if r() is not None]
        outputs = {}
        for t in tensors_alive:
            c = t._creator
            if c is not None:
                outputs.setdefault(id(c), []).append(t)
        referred = set()
        for op, guarded in live_ops:
            # arrays the operation was RECORDED with (in-place updates later mirror public tensors onto new arrays; the
            # operation keeps guarding the arrays it was recorded with, through its placeholders)
            refs = [a for a in (r() for r in self.oprefs.get(id(op), [])) if a is not None]
            for a in refs:
                referred.add(id(a))
                referred.add(id(root_array(a)))
            if guarded and self.uncleared(op) and outputs.get(id(op)):
                self.cnt["I1_evals"] += 1
                for a in refs:
                    if a.flags.writeable:
                        self.viol.append({"monitor": "M-locks", "mech": "I1-writeable-in-live-graph",
                                          "msg": f"{where}: an array of live {type(op).__name__} (guarded, upstream uncleared) is writeable"})
                        return
        for aid, (ref, orig, name) in list(self.arrays.items()):
            a = ref()
            if a is None:
                del self.arrays[aid]
                continue
            if id(a) in referred or id(root_array(a)) in referred:
                continue
            # any other registered array sharing the root that is referred keeps the root locked
            self.cnt["I2_evals"] += 1
            if bool(a.flags.writeable) != orig:
                mech = "I2-not-restored" if orig else "I2-readonly-became-writeable"
                if not orig and isinstance(a.base, np.ndarray) and root_array(a).flags.writeable:
                    mech = "readonly-view-of-writeable-base-unlocked"
                self.viol.append({"monitor": "M-locks", "mech": mech,
                                  "msg": f"{where}: array {name} is referred to by no live operation but writeable={a.flags.writeable}, originally {orig}"})
                return


def exec_stmt(env, mon, s, guarded):
    """Executes one history statement; every local dies on return (no stale references keeping graphs alive)."""
    import mygrad as mg
    from mygrad.tensor_base import Tensor
    k = s[0]
    if k == "arr":
        _, name, shape, ro, lay = s
        a = np.arange(1.0, 1.0 + int(np.prod(shape))).reshape(shape)
        if lay != "reshaped":
            a = a.copy()   # owns its memory ("reshaped" keeps the view of the 1-D arange buffer)
        if lay == "F":
            a = np.asfortranarray(a)
        elif lay == "strided":
            big = np.zeros(tuple(2 * m for m in shape))
            a_ = big[tuple(slice(0, None, 2) for _ in shape)]
            a_[...] = a
            a = a_
        if ro:
            a.flags.writeable = False
        env[name] = a
        mon.see(a, name)
    elif k == "aview":
        _, name, src, how = s
        a_ = env[src]
        if how == "full":
            v = a_[...]
        elif how == "T":
            v = a_.T
        elif how == "lo":
            v = a_[: a_.shape[0] // 2]
        else:
            v = a_[a_.shape[0] // 2:]
        env[name] = v
        mon.note_user_view(v)
    elif k == "tensor":
        _, name, src, copy, const = s
        kw = {} if const is None else {"constant": const}
        env[name] = mg.tensor(env[src], **kw) if copy else mg.Tensor(env[src], copy=False, **kw)
        mon.see(env[name].data, name)
    elif k == "tview":
        _, name, src, how = s
        t = env[src]
        env[name] = t[...] if how == "full" else (t.T if how == "T" else t[0])
        mon.see(env[name].data, name, orig=None if isinstance(env[name].data.base, np.ndarray) else True)
    elif k == "op":
        _, out, fn, ops, outarr, ctx = s
        args = [env[o] for o in ops]
        will_guard = {"mem_guard_off": False, "no_autodiff": False, "mem_guard_on": True}.get(ctx, mg.mem_guard_active())
        if will_guard:  # arrays enter I2's range when MyGrad is asked to guard them
            for o, a in zip(ops, args):
                mon.see(a.data if isinstance(a, Tensor) else a, o)
        f = getattr(mg, fn)
        kw = {} if outarr is None else {"out": env[outarr]}
        cm = {"mem_guard_off": mg.mem_guard_off, "no_autodiff": mg.no_autodiff, "mem_guard_on": mg.mem_guard_on}.get(ctx)
        if cm is not None:
            with cm:
                guarded = mg.mem_guard_active() and ctx != "no_autodiff"
                env[out] = f(*args, **kw)
        else:
            env[out] = f(*args, **kw)
        mon.see(env[out].data, out, orig=True if outarr is None else None)
    elif k == "inplace":
        _, tgt, how, val = s
        t = env[tgt]
        v = env[val] if val is not None else 2.0
        if how == "setitem":
            t[...] = v
        elif how == "iadd":
            t += v
        elif how == "imul":
            t *= v
        else:
            mg.multiply(t, v, out=t)
        if isinstance(v, np.ndarray):
            # the in-place kernel runs unguarded and locks its operands only once it has succeeded: a value array enters
            # I2's range only then (a user view that merely inherited a lock and was never locked by MyGrad cannot be restored by it)
            mon.see(v, val)
        mon.see(t.data, tgt, orig=True)
    elif k == "fail":
        _, tname, aname = s
        bad = np.ones((7, 5, 3))
        mon.see(bad, "bad")
        try:
            mg.add(env[tname], bad) if env[tname].shape != bad.shape else None
            mg.matmul(env[tname], bad)
        except Exception:
            pass
        try:
            env[tname][(10 ** 6,) * max(1, env[tname].ndim)]      # a kernel that fails with IndexError, not ValueError / TypeError
        except Exception:
            pass
        try:
            with np.errstate(all="raise"):
                mg.divide(env[tname], np.zeros(env[tname].shape))  # ... and with FloatingPointError
        except Exception:
            pass
        del bad
    elif k == "fail_late":
        _, name, how = s
        a = env[name]
        if how != "int_const":   # (the int_const form builds its own integer operands and never hands `a` to MyGrad)
            mon.see(a.data if isinstance(a, Tensor) else a, name)
        try:
            if how == "dtype":
                mg.add(a, 1.0, dtype=np.complex64)
            elif how == "dtype_repeat":
                mg.multiply(a, a, dtype=np.complex64)
            else:
                ia = np.arange(int(np.prod(a.shape))).reshape(a.shape)
                mon.see(ia, "ia")
                mg.add(ia, ia[...], constant=False)
        except Exception:
            pass
    elif k == "backward":
        env[s[1]].backward()
    elif k == "clear":
        env[s[1]].clear_graph()
    elif k == "cycle":
        x = env[s[1]]
        holder = [x]
        holder.append(holder)
        del holder, x
    elif k == "del":
        env.pop(s[1], None)
    elif k == "gc":
        gc.collect()

    return guarded


def run_case(case):
    import mygrad as mg
    from mygrad.tensor_base import Tensor
    REG.reset()
    rng = random.Random(case["gseed"])
    env = {}
    mon = Monitor()
    gc.collect()
    gc.disable()
    tool = None
    injected = [0]
    if case.get("gcinject", 0) > 0 and hasattr(sys, "monitoring"):
        mon_ = sys.monitoring
        tool = mon_.PROFILER_ID
        try:
            mon_.use_tool_id(tool, "mgverif-gc")
        except ValueError:
            tool = None
        if tool is not None:
            p = case["gcinject"]
            files = ("tensor_base.py", "lock_management.py", "duplicating_graph.py")

            def cb(code, *a):
                if not code.co_filename.endswith(files):
                    return mon_.DISABLE
                if rng.random() < p:
                    injected[0] += 1
                    gc.collect()

            # Collections are injected only where CPython itself can run one: the RESUME instruction at the start of a function (and at the
            # resumption of a generator) is an eval-breaker check, the place where 3.12 runs a pending collection.  A function RETURN is not
            # (an earlier version injected there too and manufactured a collection between `array_is_tracked(arr)` returning True and the
            # `_array_counter[arr_id] += 1` that relies on it - a window with no allocation and no check in it, see DESIGN.md section 10).
            mon_.register_callback(tool, mon_.events.PY_START, cb)
            mon_.register_callback(tool, mon_.events.PY_RESUME, cb)
            mon_.set_events(tool, mon_.events.PY_START | mon_.events.PY_RESUME)
    lockseq = []
    try:
        for i, s in enumerate(case["st"]):
            k = s[0]
            n_ops0 = len(REG.ops)
            n_lock0 = len(REG.lock_events)
            guarded = mg.mem_guard_active()
            ctx = None
            try:
                guarded = exec_stmt(env, mon, s, guarded)
            except (ValueError, TypeError, IndexError, KeyError, InvalidBackprop, RecursionError, AssertionError) as e:
                # e.g. writing to a natively read-only out= / in-place target, integer casting: the statement failed like a user error
                mon.cnt["stmt_raised"] = mon.cnt.get("stmt_raised", 0) + 1
                del e
            for r in REG.ops[n_ops0:]:
                op = r()
                if op is not None:
                    mon.opguard[id(op)] = (r, bool(guarded))
                    mon.record_refs(op, [t for t in (q() for q in REG.tensors) if t is not None and t._creator is op])
                    if guarded:
                        mon.cnt["guarded_ops"] += 1
            op = None
            for ev in REG.lock_events[n_lock0:]:
                lockseq.append(ev[0][0])
            tensors_alive = [t for t in (r() for r in REG.tensors) if t is not None]
            mon.check(f"after stmt {i} {s[:3]}", tensors_alive)
            if case.get("debug"):
                print(i, s)
                debug_dump(mon, tensors_alive)
            del tensors_alive
            if mon.viol:
                break
        if not mon.viol:
            for name in [n for n, v in env.items() if not isinstance(v, np.ndarray)]:
                del env[name]           # the user keeps the arrays, drops every tensor
            if not any(s_[0] == "cycle" for s_ in case["st"]):
                # nothing in this history parks results in a reference cycle: dropping the last references must be enough, a garbage
                # collection must not be needed to get the flags back (the cyclic GC is disabled during the case)
                for aid, (ref, orig, name) in mon.arrays.items():
                    a = ref()
                    if a is None or bool(a.flags.writeable) == orig:
                        continue
                    mon.cnt["pre_gc_quiescence_checks"] = mon.cnt.get("pre_gc_quiescence_checks", 0) + 1
                    before_gc = bool(a.flags.writeable)
                    # mechanism probe for the known finding: is some tensor that is still alive part of a creator/variables graph that
                    # contains a cycle (an in-place update of a partially cleared tensor whose dependants were alive)?
                    from mgverif.props.C09 import graph_cyclic
                    cyclic = False
                    for r_ in REG.tensors:
                        t_ = r_()
                        if t_ is not None and t_._creator is not None:
                            try:
                                if graph_cyclic(t_):
                                    cyclic = True
                                    break
                            except Exception:
                                pass
                    t_ = None
                    gc.collect()
                    if bool(a.flags.writeable) == orig:
                        mon.viol.append({"monitor": "M-locks", "mech": "cyclic-graph-keeps-locks-until-gc" if cyclic else "restored-only-by-gc",
                                         "msg": f"after the last reference was dropped array {name} had writeable={before_gc} (originally {orig}); "
                                                f"only a garbage collection restored it: the graph was kept alive by a reference cycle"})
                    break
                mon.cnt["pre_gc_quiescence"] = mon.cnt.get("pre_gc_quiescence", 0) + 1
            gc.collect()
            for aid, (ref, orig, name) in mon.arrays.items():
                a = ref()
                if a is None:
                    continue
                mon.cnt["quiescent_arrays"] += 1
                if bool(a.flags.writeable) != orig:
                    mon.viol.append({"monitor": "M-locks", "mech": "quiescence-not-restored" if orig or not isinstance(a.base, np.ndarray)
                                     else "readonly-view-of-writeable-base-unlocked",
                                     "msg": f"at quiescence array {name} has writeable={a.flags.writeable}, originally {orig}"})
                    break
        if not mon.viol:
            # diagnostic (not a verdict): with every graph gone the lock tables should be empty; what is left behind is keyed by id() and
            # is a hazard once that id is reused by another array
            from mygrad._utils import lock_management as _lm
            left_c = {k: v for k, v in _lm._array_counter.items() if v}
            left_t = {k: (r() is not None) for k, r in _lm._array_tracker.items()}
            stale_ids = {k for k in left_c if not left_t.get(k, False)} | {k for k, alive in left_t.items() if not alive}
            if stale_ids:
                # id-reuse probe: let fresh user arrays (natively read-only / writeable) land on an id that the lock tables still know,
                # run each through a guarded operation and drop the graph: the original flag must be back
                import mygrad as _mg
                hit, keep = [], []
                for _k in range(3000):
                    b_ = np.array([1.0, 2.0, 3.0][: 1 + _k % 3])
                    if id(b_) in stale_ids:
                        hit.append(b_)
                        if len(hit) >= 2:
                            break
                    else:
                        keep.append(b_)
                del keep
                for j, b_ in enumerate(hit):
                    orig = bool(j % 2)
                    b_.flags.writeable = orig
                    mon.cnt["reuse_probes"] = mon.cnt.get("reuse_probes", 0) + 1
                    y_ = _mg.Tensor(b_, copy=False, constant=True) * 2.0
                    locked = b_.flags.writeable
                    del y_
                    gc.collect()
                    if locked or bool(b_.flags.writeable) != orig:
                        mon.viol.append({"monitor": "M-locks", "mech": "id-reuse:" + ("writeable-in-live-graph" if locked else
                                                                                      ("not-restored" if orig else "readonly-became-writeable")),
                                         "msg": f"a fresh user array that reuses the id of an array freed while still counted in the lock tables "
                                                f"(original writeable={orig}) is writeable={b_.flags.writeable} after its graph is gone (in graph: {locked})"})
                        break
                del hit
            if left_c or left_t or _lm._views_waiting_for_unlock:
                mon.cnt["locktable_leftovers"] = 1
                mon.cnt["locktable_left_counter"] = len(left_c)
                mon.cnt["locktable_left_tracker_dead"] = sum(1 for a in left_t.values() if not a)
                mon.cnt["locktable_left_tracker_alive"] = sum(1 for a in left_t.values() if a)
                mon.cnt["locktable_left_waiting"] = len(_lm._views_waiting_for_unlock)
                if case.get("debug"):
                    print("LEFTOVERS", left_c, left_t, dict(_lm._views_waiting_for_unlock))
    finally:
        if tool is not None:
            sys.monitoring.set_events(tool, 0)
            sys.monitoring.free_tool_id(tool)
        gc.enable()
    import hashlib
    sig = hashlib.sha1("".join(lockseq).encode()).hexdigest()[:16]
    mon.cnt["lock_events"] = len(lockseq)
    mon.cnt["gc_injections"] = injected[0]
    nrel = lockseq.count("u")
    return {"viol": mon.viol[:3], "counters": mon.cnt, "sets": {"opclasses": sorted(REG.opclasses)}, "sig": sig,
            "nontrivial": mon.cnt["guarded_ops"] >= 3 and nrel >= 1}


def debug_dump(mon, tensors_alive):
    ev = None
    if hasattr(sys, "monitoring") and sys.monitoring.get_tool(sys.monitoring.PROFILER_ID):
        ev = sys.monitoring.get_events(sys.monitoring.PROFILER_ID)     # (the dump must not consume the GC-injection schedule)
        sys.monitoring.set_events(sys.monitoring.PROFILER_ID, 0)
    try:
        _debug_dump(mon, tensors_alive)
    finally:
        if ev is not None:
            sys.monitoring.set_events(sys.monitoring.PROFILER_ID, ev)


def _debug_dump(mon, tensors_alive):
    from mygrad._utils import lock_management as lm
    print("  tables:", dict(lm._array_counter), list(lm._array_tracker), dict(lm._views_waiting_for_unlock))
    print("  lock events:", [(e[0], e[1], e[3]) for e in REG.lock_events[getattr(mon, "_dbg_seen", 0):]])
    mon._dbg_seen = len(REG.lock_events)
    live_ops = [(r(), g) for r, g in mon.opguard.values() if r() is not None]
    print("  live ops:", [(type(o).__name__, g, [id(v.data) for v in o.variables]) for o, g in live_ops])
    print("  arrays:", [(n, aid, r() is not None and bool(r().flags.writeable), o) for aid, (r, o, n) in mon.arrays.items()])


def witness_cases():
    # the recorded witness of the known finding cyclic-graph-keeps-locks-until-gc
    return [{"st": [["arr", "a1", [1], False, "C"], ["aview", "a2", "a1", "T"], ["tensor", "t3", "a2", True, None], ["tview", "r4", "t3", "first"],
                    ["op", "r5", "add_sequence", ["r4", "r4"], None, None], ["op", "r6", "sin", ["r4"], None, "no_autodiff"],
                    ["op", "r7", "subtract", ["r4", "r4"], None, None], ["inplace", "r5", "imul", None], ["clear", "r7"],
                    ["op", "r8", "add", ["r5", "r5"], None, None], ["arr", "a9", [1], False, "C"], ["op", "r10", "maximum", ["t3", "a1"], "a9", None],
                    ["inplace", "r4", "imul", "r5"], ["op", "r11", "add_sequence", ["r6", "r4", "r4"], None, "mem_guard_on"], ["del", "r5"],
                    ["del", "t3"], ["del", "r10"], ["del", "r8"], ["del", "r6"], ["gc"], ["del", "r11"], ["gc"], ["del", "r7"], ["del", "r4"]],
             "gcinject": 0.0, "gseed": 1}]

"""C11 — every public entry point to an operation behaves identically."""
import copy
import random
import numpy as np

from mgverif.hooks import REG
from mgverif.prog import Interp, enc_arr
from mgverif import mgrun, ops_table as OT
from mgverif.gen import build as B
from mgverif.cli import case_seed

PID = "C11"
LEVEL = "exploration"
RULE = ("spelling groups derived from the op table and the registries at run time: one seeded call (function x option sample x operand mix "
        "tensor/array/scalar/constant) is executed once per applicable spelling on fresh copies of identical operands - mg.f, np.f (through "
        "__array_ufunc__/__array_function__), Tensor method, Python operator / reflected operator, augmented assignment and out=Tensor "
        "(in-place forms, target = u*1.0 so that upstream gradients are observable) - followed by backward with the same cotangent. Values, "
        "dtype and constant flag of the result and every leaf gradient must be bit-identical across spellings (4 ulp for x**1/x**2 which are "
        "documented to re-route to Positive/Square). Negative half (enumerated): every ufunc in the bool-only / const-only registries and every "
        "registered no-diff NumPy function returns a non-Tensor on tensors, and the rounding/modulo family (incl. the // operator) raises on "
        "non-constant tensors while accepting constant ones with NumPy's values. Non-trivial: >=2 spellings compared; distinct = "
        "(function, spelling set, option keys, operand kinds).")
ASSUMPTIONS = ["the first listed spelling (mg.f) is the reference; spellings are compared with each other, not with NumPy (C03 does that)"]
TIERS = {"quick": {"cases": 12000}, "thorough": {"cases": 400000}}
FLOORS = {"quick": {"spellings_compared": 4000, "negative_checks": 50, "nondiff_type_checks": 2000, "nondiff_refused_nonconstant": 30, "nondiff_spellings_compared": 1500},
          "thorough": {"spellings_compared": 20000, "negative_checks": 50, "nondiff_type_checks": 10000, "nondiff_refused_nonconstant": 150, "nondiff_spellings_compared": 8000}}

GENS = [(B.g_unary, 12), (B.g_binary, 20), (B.g_matmul, 4), (B.g_reduce, 10), (B.g_cum, 3), (B.g_norm, 2), (B.g_einsum, 3), (B.g_where, 2),
        (B.g_clip, 3), (B.g_shape, 10), (B.g_join, 3), (B.g_repeat, 2)]
AUG_OPS = {"add": "+", "subtract": "-", "multiply": "*", "divide": "/", "power": "**"}


def gen_case(rng, cfg, idx):
    if idx < 1:
        return {"kind": "negative"}
    if idx % 6 == 5:
        # the non-differentiable namesakes over C03's operand lattice: results must be plain NumPy objects, and the rounding/modulo
        # family must refuse non-constant tensors (through np.f, mg.f, methods and operators alike)
        from mgverif.props import C03
        c = C03.gen_nondiff_case(rng)
        c["kind"] = "nondiff"
        return c
    for _ in range(30):
        b = B.Builder(rng, dtype=rng.choice(["float64", "float64", "float32"]))
        b.special_scalars = True
        shape = B.rand_shape(rng, 3, 3, 1)
        for i in range(rng.randint(1, 2)):
            b.leaf(shape if i == 0 else B.bcast_variants(rng, shape), constant=rng.choice([None, None, None, True]), lo=0.4, hi=1.8,
                   signed=rng.random() < 0.5)
        n0 = len(b.prog)
        out = B.random_node(b, GENS)
        if out is None:
            continue
        calls = [i for i in range(n0, len(b.prog)) if b.prog[i]["k"] == "call"]
        if not calls:
            continue
        ci = calls[-1]
        if b.prog[ci]["out"] != out or not b.meta[out]["tensor"]:
            continue
        if OT.SPECS[b.prog[ci]["fn"]].kind in ("u1", "u2") and OT.SPECS[b.prog[ci]["fn"]].npf is not None and rng.random() < 0.3:
            # dtype= is an option every ufunc spelling (function forms, out= forms) must honour alike
            b.prog[ci].setdefault("kw", {})["dtype"] = ["dt", rng.choice(["float32", "float64", "float16"])]
            if b.prog[ci].get("sp") == "op":
                b.prog[ci]["sp"] = "mg"
        Lv = b.val(out)
        seed = enc_arr(B.rand_values(rng, np.shape(Lv), 0.3, 1.5)) if np.size(Lv) else None
        return {"kind": "spell", "prog": b.prog, "ci": ci, "seed": seed, "nonconst": bool(b.meta[out]["nonconst"])}
    return None


def nondiff_spellings(nd):
    """[(name, callable(args, kw))]: the MyGrad-side spellings of one non-differentiable operation."""
    import operator
    import mygrad as mg
    g, fn = nd["group"], nd["fn"]
    if g in ("bool1", "bool2", "const1", "const2"):
        out = [("np." + fn, lambda a, k: getattr(np, fn)(*a, **k)), ("mg." + fn, lambda a, k: getattr(mg, fn)(*a, **k))]
        if fn in ("remainder", "mod"):
            other = "mod" if fn == "remainder" else "remainder"
            out.append(("mg." + other, lambda a, k: getattr(mg, other)(*a, **k)))
        if fn == "floor_divide":
            out.append(("//", lambda a, k: operator.floordiv(*a)))
        return out
    if g == "cmp":
        uf = {"lt": "less", "le": "less_equal", "gt": "greater", "ge": "greater_equal", "eq": "equal", "ne": "not_equal"}[fn]
        return [("operator " + fn, lambda a, k: getattr(operator, fn)(*a)), ("np." + uf, lambda a, k: getattr(np, uf)(*a)),
                ("mg." + uf, lambda a, k: getattr(mg, uf)(*a))]
    if g == "floordiv":
        if fn == "floordiv":
            return [("//", lambda a, k: a[0] // a[1]), ("np.floor_divide", lambda a, k: np.floor_divide(a[0], a[1]))]
        return [("r//", lambda a, k: a[1] // a[0]), ("np.floor_divide", lambda a, k: np.floor_divide(a[1], a[0]))]
    if g == "argred":
        return [("np." + fn, lambda a, k: getattr(np, fn)(a[0], **k)), ("mg." + fn, lambda a, k: getattr(mg, fn)(a[0], **k)),
                ("method", lambda a, k: getattr(a[0], fn)(**k))]
    return []


def _isref(a, it_meta):
    return isinstance(a, list) and a and a[0] == "r"


def spellings_for(case, env_types):
    """env_types: name -> 'tensor' | 'array' | 'other' (from executing the leaf prefix)."""
    st = case["prog"][case["ci"]]
    spec = OT.SPECS[st["fn"]]
    args, kw = st.get("a", []), st.get("kw", {})
    refs = mgrun.stmt_refs(st)
    anyt = any(env_types.get(r) == "tensor" for r in refs)
    first_t = bool(args) and isinstance(args[0], list) and args[0][:1] == ["r"] and env_types.get(args[0][1]) == "tensor"
    out = ["mg"]
    if spec.npf is not None and anyt:
        out.append("np")
    if spec.meth is not None and first_t and not (st["fn"] == "transpose" and False):
        out.append("meth")
    if spec.opr is not None and not kw and anyt and len(args) == (1 if spec.opr in ("neg", "pos") else 2):
        if not (isinstance(args[0], list) and args[0][:1] == ["s"]):
            out.append("op")
    if st["fn"] in AUG_OPS and not kw and len(args) == 2 and first_t:
        out.append("aug")
    if spec.kind in ("u1", "u2") and spec.npf is not None:
        out += ["out:mg", "out:np", "outarr:mg", "outarr:np"] if anyt else ["out:mg", "outarr:mg"]
    if st["fn"] in POSITIONAL_FNS and kw and "dtype" not in kw:
        # the options handed over POSITIONALLY, in the order the mygrad function documents (axis[, ddof], keepdims)
        out.append("pos:mg")
        if spec.meth is not None and first_t:
            out.append("pos:meth")
    return out


POSITIONAL_FNS = {"sum": ("axis", "keepdims"), "mean": ("axis", "keepdims"), "prod": ("axis", "keepdims"), "max": ("axis", "keepdims"),
                  "min": ("axis", "keepdims"), "var": ("axis", "ddof", "keepdims"), "std": ("axis", "ddof", "keepdims"),
                  "cumsum": ("axis",), "cumprod": ("axis",)}
POS_DEFAULTS = {"axis": None, "keepdims": False, "ddof": 0}


def build_variant(case, sp):
    prog = copy.deepcopy(case["prog"][: case["ci"] + 1])
    st = prog[case["ci"]]
    res = st["out"]
    if sp in ("mg", "np", "meth", "op"):
        st["sp"] = sp
    elif sp.startswith("pos:"):
        order = POSITIONAL_FNS[st["fn"]]
        kw = dict(st.get("kw", {}))
        last = max(i for i, k in enumerate(order) if k in kw) if any(k in kw for k in order) else -1
        st["a"] = list(st["a"]) + [kw.pop(k) if k in kw else POS_DEFAULTS[k] for k in order[: last + 1]]
        st["kw"] = kw
        st["sp"] = sp[4:]
    elif sp == "aug":
        x = st["a"][0][1]
        pre = {"k": "call", "out": "__t", "fn": "multiply", "a": [["r", x], ["a", case["first_dtype"], [], [1.0]]], "sp": "mg"}
        prog[case["ci"]] = pre
        prog.append({"k": "aug", "tgt": "__t", "op": AUG_OPS[st["fn"]], "value": st["a"][1]})
        res = "__t"
    elif sp.startswith("outarr:"):
        prog[case["ci"]] = {"k": "leaf", "out": "__o", "kind": "array", "dtype": case["res_dtype"], "shape": case["res_shape"],
                            "data": [0.5] * int(np.prod(case["res_shape"], dtype=int)), "layout": "C"}
        st2 = dict(st)
        st2["kw"] = dict(st.get("kw", {}), out=["r", "__o"])
        st2["sp"] = sp[7:]
        prog.append(st2)
    elif sp.startswith("out:"):
        prog[case["ci"]] = {"k": "leaf", "out": "__u", "kind": "tensor", "dtype": case["res_dtype"], "shape": case["res_shape"],
                            "data": [0.5] * int(np.prod(case["res_shape"], dtype=int)), "constant": None, "layout": "C"}
        prog.append({"k": "call", "out": "__t", "fn": "multiply", "a": [["r", "__u"], ["a", case["res_dtype"], [], [1.0]]], "sp": "mg"})
        prog.append({"k": "uout", "fn": st["fn"], "a": st["a"], "kw": {k: v for k, v in st.get("kw", {}).items()}, "tgt": "__t", "sp": sp[4:]})
        res = "__t"
    prog.append({"k": "backward", "tgt": res, "seed": case["seed"]})
    return prog, res


_LAST_ENV = {}


def prog_env_out(prog, res):
    return _LAST_ENV.get("__o")


def run_variant(prog, res):
    REG.reset()
    it = Interp("mg")
    with np.errstate(all="ignore"):
        it.run(prog, catch=False)
    _LAST_ENV.clear()
    _LAST_ENV.update({k: v for k, v in it.env.items() if k == "__o"})
    r = it.env[res]
    grads = {n: g for n, g in mgrun.snapshot_grads(it.env).items() if not n.startswith("__") and n != res}
    return r, grads, sorted(REG.opclasses)


def ulp_close(a, b, ulps, coarse=None):
    """Units in the last place of the arrays' OWN float type (the coarser of the two, or `coarse` when the computation was asked to run in a
    coarser type through dtype=)."""
    a, b = np.asarray(a), np.asarray(b)
    fdts = [np.dtype(d) for d in (a.dtype, b.dtype, coarse) if d is not None and np.dtype(d).kind == "f"]
    dt = max(fdts, key=lambda d: np.finfo(d).eps) if fdts else np.dtype(float)
    a, b = a.astype(float), b.astype(float)
    if a.shape != b.shape:
        return False
    with np.errstate(all="ignore"):
        tol = ulps * np.spacing(np.maximum(np.abs(a), np.abs(b)).astype(dt)).astype(float)
        return bool(np.all((np.abs(a - b) <= tol) | ((a != a) & (b != b)) | (a == b)))


def reduced_close(ga, gb, r0, ulps):
    """A gradient that was sum-reduced (a broadcast operand): an out= array of another memory layout changes the order of that sum, so the
    error is a few ulps of the *summands* (which may cancel), not of the result.  The summands are bounded through the result's size ratio
    and the largest gradient magnitude seen in either spelling; only the out=/augmented spellings get this allowance."""
    ga, gb = np.asarray(ga), np.asarray(gb)
    if ga.shape != gb.shape or ga.size == 0 or ga.size >= max(1, r0.size):
        return False
    fd = [np.dtype(d) for d in (ga.dtype, gb.dtype, r0.dtype) if np.dtype(d).kind == "f"]
    eps = max(np.finfo(d).eps for d in fd) if fd else np.finfo(float).eps
    with np.errstate(all="ignore"):
        a, b = ga.astype(float), gb.astype(float)
        scale = max(1.0, float(np.nanmax(np.abs(a))), float(np.nanmax(np.abs(b)))) * (r0.size / ga.size)
        return bool(np.all((np.abs(a - b) <= ulps * eps * scale) | ((a != a) & (b != b)) | (a == b)))


def run_case(case):
    if case["kind"] == "negative":
        return run_negative()
    if case["kind"] == "nondiff":
        from mgverif.props import C03
        r = C03.run_nondiff(case)
        # C11 judges the kind of object returned and the refusals; value agreement with NumPy is C03's verdict
        r["viol"] = [v for v in r.get("viol", []) if v["mech"].startswith(("nondiff-returns-tensor", "nondiff-accepts-nonconstant", "nondiff-raises",
                                                                          "nondiff-records-consumer", "nondiff-leaves-lock"))]
        c = r.get("counters", {})
        r["counters"] = {"nondiff_type_checks": c.get("nondiff_compared", 0) + c.get("nondiff_compared_untracked", 0),
                         "nondiff_refused_nonconstant": c.get("nondiff_refused_nonconstant", 0)}
        # every MyGrad spelling of the same non-differentiable operation on the same tensor operands must agree with the others
        nd = case["nd"]
        alts = nondiff_spellings(nd)
        if len(alts) > 1 and not r["viol"]:
            import warnings
            outs = []
            for name, f in alts:
                it = Interp("mg", use_npf=True)
                it.run(case["prog"], catch=False)
                args = [it.env[n] for n in nd["args"]]
                kw = {k: v for k, v in nd["kw"].items() if k != "__out"}
                try:
                    with warnings.catch_warnings(), np.errstate(all="ignore"):
                        warnings.simplefilter("ignore")
                        outs.append((name, f(args, kw)))
                except Exception as e:
                    outs.append((name, e))
            n0, r0 = outs[0]
            for n1, r1 in outs[1:]:
                r["counters"]["nondiff_spellings_compared"] = r["counters"].get("nondiff_spellings_compared", 0) + 1
                if isinstance(r0, Exception) or isinstance(r1, Exception):
                    same = isinstance(r0, Exception) and isinstance(r1, Exception) and type(r0) is type(r1)
                else:
                    a0 = r0 if isinstance(r0, tuple) else (r0,)
                    a1 = r1 if isinstance(r1, tuple) else (r1,)
                    same = len(a0) == len(a1) and all(
                        np.asarray(x).dtype == np.asarray(y).dtype and np.asarray(x).shape == np.asarray(y).shape
                        and np.array_equal(np.asarray(x), np.asarray(y), equal_nan=np.asarray(x).dtype.kind in "fc") for x, y in zip(a0, a1))
                if not same:
                    r["viol"].append({"monitor": "spellings", "mech": f"nondiff-spellings-differ:{nd['fn']}",
                                      "msg": f"{nd['fn']} {case['kinds']} kw={nd['kw']}: {n0} -> {str(r0)[:80]!r} but {n1} -> {str(r1)[:80]!r}"})
                    break
        return r
    st = case["prog"][case["ci"]]
    fn = st["fn"]
    pre = Interp("mg")
    pre.run(case["prog"][: case["ci"]], catch=False)
    types = {n: ("tensor" if mgrun.is_tensor(v) else "array" if isinstance(v, np.ndarray) else "other") for n, v in pre.env.items()}
    viol, cnt, sets = [], {"spellings_compared": 0}, {}
    ref_prog, ref_res = build_variant(case, "mg")
    try:
        r0, g0, cls0 = run_variant(ref_prog, ref_res)
    except Exception as e:
        return {"viol": [], "skip": f"reference spelling raises {type(e).__name__}", "counters": {"ref_raises": 1}}
    if not mgrun.is_tensor(r0):
        return {"viol": [], "skip": "non-tensor result"}
    case = dict(case)
    case["res_shape"] = list(r0.shape)
    case["res_dtype"] = str(r0.dtype)
    a0 = st["a"][0] if st.get("a") else None
    case["first_dtype"] = str(pre.env[a0[1]].dtype) if (isinstance(a0, list) and a0[:1] == ["r"] and hasattr(pre.env.get(a0[1]), "dtype")) else "float64"
    sps = spellings_for(case, types)
    special_pow = fn == "power" and not isinstance(st["a"][1], list) and st["a"][1] in (1, 2, 1.0, 2.0)
    ulps = 4 if special_pow else 0
    used = ["mg"]
    for sp in sps[1:]:
        if sp.startswith("out") and r0.dtype.kind != "f":
            continue
        if sp == "aug" and (list(r0.shape) != list(pre.env[st["a"][0][1]].shape) or pre.env[st["a"][0][1]].dtype != r0.dtype
                            or pre.env[st["a"][0][1]].constant):
            continue  # an in-place target keeps its own (constant) flag: not comparable with the functional form
        prog, res = build_variant(case, sp)
        try:
            r, g, cls = run_variant(prog, res)
        except Exception as e:
            viol.append({"monitor": "O-meta", "mech": f"spelling-raises:{fn}:{sp}:{type(e).__name__}",
                         "msg": f"{fn} via {sp} raised {type(e).__name__}: {e} while mg.{fn} returned"})
            continue
        used.append(sp)
        cnt["spellings_compared"] += 1
        if not mgrun.is_tensor(r):
            viol.append({"monitor": "O-meta", "mech": f"not-a-tensor:{fn}:{sp}", "msg": f"{fn} via {sp} returned {type(r).__name__}"})
            continue
        inplace = sp == "aug" or sp.startswith("out:")
        # out= forms run NumPy's loop on differently laid-out / aligned output memory: NumPy's own transcendental kernels then differ in
        # the last bit (seen for arctan2 at 1 ulp in 40 of 400000 thorough cases); every other spelling must agree bit for bit
        ulps_sp = max(ulps, 4) if (sp.startswith("out") or sp == "aug") else ulps
        if sp.startswith("outarr:"):
            oa = prog_env_out(prog, res)
            if oa is not None and (oa.dtype != r0.dtype or not (np.array_equal(oa, r0.data, equal_nan=True) or ulp_close(oa, r0.data, 4))):
                viol.append({"monitor": "O-meta", "mech": f"value:{fn}:{sp}:array", "msg": f"{fn}: the out= array holds {oa.ravel()[:4]} {oa.dtype}; mg gives {r0.data.ravel()[:4]} {r0.dtype}"})
        if r.dtype != r0.dtype or r.shape != r0.shape or not (np.array_equal(r.data, r0.data, equal_nan=True) or ulp_close(r.data, r0.data, ulps_sp)):
            pys = any(isinstance(a, (int, float)) and not isinstance(a, bool) for a in st.get("a", []))
            with np.errstate(all="ignore"):
                castclose = r.shape == r0.shape and r.dtype != r0.dtype and np.allclose(r.data.astype(np.float64), r0.data.astype(np.float64),
                                                                                         rtol=1e-2 if np.float16 in (r.dtype, r0.dtype) else 1e-5, equal_nan=True)
            viol.append({"monitor": "O-meta", "mech": f"value:{fn}:{sp}", "pyscalar_dtype_only": bool(pys and castclose),
                         "msg": f"{fn}: mg gives {r0.data.ravel()[:4]} {r0.dtype}; {sp} gives {r.data.ravel()[:4]} {r.dtype}"})
            if pys and castclose:
                continue   # gradients then differ in dtype-rounding only: one finding, reported once
        if not inplace and r.constant != r0.constant:
            viol.append({"monitor": "O-meta", "mech": f"constant:{fn}:{sp}", "msg": f"{fn}: constant {r0.constant} via mg but {r.constant} via {sp}"})
        if inplace and r0.constant:
            continue  # a constant result carries no gradients to compare
        for n, ga in g0.items():
            gb = g.get(n)
            if (ga is None) != (gb is None):
                if inplace and ga is None:
                    continue
                viol.append({"monitor": "O-meta", "mech": f"grad-presence:{fn}:{sp}", "msg": f"{fn}: {n}.grad presence differs between mg and {sp}"})
            elif ga is not None and not (np.array_equal(ga, gb, equal_nan=True) or ulp_close(ga, gb, max(ulps_sp, 0) * 4, coarse=r0.dtype)
                                         or (ulps_sp > 0 and reduced_close(ga, gb, r0, ulps_sp * 4))):
                viol.append({"monitor": "O-meta", "mech": f"grad:{fn}:{sp}", "msg": f"{fn}: {n}.grad {ga.ravel()[:4]} via mg but {gb.ravel()[:4]} via {sp}"})
        sets.setdefault("class_by_spelling", []).append(f"{fn}:{sp}:{'+'.join(cls)}"[:120])
    sets["fns"] = [fn]
    sets["spellings"] = used
    sig = repr((fn, tuple(used), tuple(sorted(st.get("kw", {}))), tuple(sorted(types.values()))))
    return {"viol": viol[:4], "counters": cnt, "sets": sets, "sig": sig, "nontrivial": len(used) >= 2}


def run_negative():
    import mygrad as mg
    from mygrad import tensor_base as tb
    viol, cnt, sets = [], {"negative_checks": 0}, {}
    x = mg.tensor([[1.5, -2.5], [0.25, 3.0]])
    c = mg.tensor([[1.5, -2.5], [0.25, 3.0]], constant=True)
    i = mg.tensor([[1, 2], [3, 4]])

    def chk(name, ok, msg):
        cnt["negative_checks"] += 1
        sets.setdefault("negative", []).append(name)
        if not ok:
            viol.append({"monitor": "negative", "mech": f"negative:{name}", "msg": msg})

    for uf in sorted(tb._REGISTERED_BOOL_ONLY_UFUNC, key=lambda u: u.__name__):
        if uf is np.isnat:
            continue
        args = (x,) if uf.nin == 1 else (x, c)
        try:
            with np.errstate(all="ignore"):
                r = uf(*args)
            want = uf(*(a.data for a in args))
            chk(uf.__name__, not isinstance(r, mg.Tensor) and np.array_equal(r, want), f"np.{uf.__name__}(tensor) returned {type(r).__name__}")
        except Exception as e:
            chk(uf.__name__, False, f"np.{uf.__name__}(tensor) raised {type(e).__name__}: {e}")
    for uf in sorted(tb._REGISTERED_CONST_ONLY_UFUNC, key=lambda u: u.__name__):
        a_nc = (x,) if uf.nin == 1 else (x, 2.0)
        a_c = (c,) if uf.nin == 1 else (c, 2.0)
        a_mixed = None if uf.nin == 1 else (c, x)
        try:
            uf(*a_nc)
            chk(uf.__name__ + ":nonconst", False, f"np.{uf.__name__} accepted a non-constant tensor")
        except ValueError:
            chk(uf.__name__ + ":nonconst", True, "")
        except Exception as e:
            chk(uf.__name__ + ":nonconst", False, f"np.{uf.__name__}(non-constant) raised {type(e).__name__} instead of ValueError")
        if a_mixed:
            try:
                uf(*a_mixed)
                chk(uf.__name__ + ":mixed", False, f"np.{uf.__name__}(constant, non-constant) was accepted")
            except ValueError:
                chk(uf.__name__ + ":mixed", True, "")
            except Exception as e:
                chk(uf.__name__ + ":mixed", False, f"raised {type(e).__name__}")
        try:
            r = uf(*a_c)
            want = uf(*(a.data if isinstance(a, mg.Tensor) else a for a in a_c))
            rs = r if isinstance(r, tuple) else (r,)
            ws = want if isinstance(want, tuple) else (want,)
            chk(uf.__name__ + ":const", all(not isinstance(q, mg.Tensor) and np.array_equal(q, w) for q, w in zip(rs, ws)),
                f"np.{uf.__name__}(constant tensor) returned {type(r).__name__} / wrong values")
        except Exception as e:
            chk(uf.__name__ + ":const", False, f"np.{uf.__name__}(constant tensor) raised {type(e).__name__}: {e}")
    for opname, f in (("floordiv", lambda a: a // 2.0), ("rfloordiv", lambda a: 2.0 // a)):
        try:
            f(x)
            chk(opname + ":nonconst", False, f"{opname} accepted a non-constant tensor")
        except ValueError:
            chk(opname + ":nonconst", True, "")
        r = f(c)
        chk(opname + ":const", not isinstance(r, mg.Tensor) and np.array_equal(r, f(c.data)), f"{opname}(constant) returned {type(r).__name__}")
    nodiff = {np.allclose: (x, c), np.isclose: (x, c), np.may_share_memory: (x, c), np.shares_memory: (x, c), np.shape: (x,),
              np.result_type: (x, i), np.min_scalar_type: (x,), np.can_cast: (i, np.float64), np.bincount: (mg.tensor([0, 1, 1]),)}
    for f in sorted(tb._REGISTERED_NO_DIFF_NUMPY_FUNCS, key=lambda q: q.__name__):
        if f not in nodiff:
            sets.setdefault("negative_unprobed", []).append(f.__name__)
            continue
        try:
            r = f(*nodiff[f])
            want = f(*(a.data if isinstance(a, mg.Tensor) else a for a in nodiff[f]))
            same = (r == want) if not isinstance(r, np.ndarray) else np.array_equal(r, want)
            chk(f.__name__, not isinstance(r, mg.Tensor) and bool(np.all(same)), f"np.{f.__name__} on tensors returned {type(r).__name__} / wrong value")
        except Exception as e:
            chk(f.__name__, False, f"np.{f.__name__} on tensors raised {type(e).__name__}: {e}")
    for name, f in (("argmax", lambda t: (np.argmax(t), mg.argmax(t), t.argmax())), ("argmin", lambda t: (np.argmin(t), mg.argmin(t), t.argmin())),
                    ("any", lambda t: (np.any(t), mg.any(t), t.any())), ("comparisons", lambda t: (t < 1, t <= 1, t > 1, t >= 1, t == 1, t != 1))):
        rs = f(x)
        chk(name, all(not isinstance(r, mg.Tensor) for r in rs), f"{name} returned a Tensor")
    for uf in sorted(tb._REGISTERED_CONST_ONLY_UFUNC, key=lambda u: u.__name__):
        if uf.nin != 2 or uf.nout != 1:
            continue
        for meth in ("reduce", "accumulate", "outer"):
            a_nc = (x, x) if meth == "outer" else (x,)
            a_c = (c, c) if meth == "outer" else (c,)
            try:
                getattr(uf, meth)(*a_nc)
                chk(f"{uf.__name__}.{meth}:nonconst", False, f"np.{uf.__name__}.{meth} accepted a non-constant tensor")
            except ValueError:
                chk(f"{uf.__name__}.{meth}:nonconst", True, "")
            except Exception as e:
                chk(f"{uf.__name__}.{meth}:nonconst", False, f"np.{uf.__name__}.{meth}(non-constant) raised {type(e).__name__} instead of ValueError")
            try:
                r = getattr(uf, meth)(*a_c)
                want = getattr(uf, meth)(*(q.data for q in a_c))
                chk(f"{uf.__name__}.{meth}:const", not isinstance(r, mg.Tensor) and np.array_equal(r, want), f"np.{uf.__name__}.{meth}(constant) returned {type(r).__name__} / wrong values")
            except Exception as e:
                chk(f"{uf.__name__}.{meth}:const", False, f"np.{uf.__name__}.{meth}(constant tensor) raised {type(e).__name__}: {e}")
    for meth in ("reduce", "accumulate", "outer"):
        try:
            r = getattr(np.add, meth)(x, x) if meth == "outer" else getattr(np.add, meth)(x)
            chk("ufunc." + meth, not isinstance(r, mg.Tensor) or r.constant, f"np.add.{meth}(tensor) silently returned a non-constant Tensor without a gradient path")
        except Exception:
            chk("ufunc." + meth, True, "")
    return {"viol": viol, "counters": cnt, "sets": sets, "sig": "negative", "nontrivial": True}


def classify(v, case):
    m = v.get("mech") or v["monitor"]
    if m.startswith("value:") and v.get("pyscalar_dtype_only"):
        # the operator route for x ** 1 / x ** 2 follows NumPy's weak Python-scalar promotion, mg.power(x, 1) wraps the scalar as a
        # strongly typed array: the C03 finding seen from the spelling side
        return "pyscalar-strong-promotion"
    return m


def witness_cases():
    return [{"kind": "spell", "ci": 1, "seed": None, "nonconst": True, "prog": [
        {"k": "leaf", "out": "x1", "kind": "tensor", "dtype": "float32", "shape": [2], "data": [1.5, 2.5], "constant": None, "layout": "C"},
        {"k": "call", "out": "v2", "fn": "power", "a": [["r", "x1"], 2], "sp": "mg"},
        {"k": "backward", "tgt": "v2", "seed": None}]}]

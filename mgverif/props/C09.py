"""C09 — backprop through a partially cleared graph fails loudly, never silently."""
import random
import numpy as np

from mgverif.hooks import REG
from mgverif.prog import Interp, enc_arr, enc_index
from mgverif.oracle import Shadow
from mgverif import mgrun
from mgverif.gen import build as B
from mgverif.gen import inplace as GI
from mygrad.errors import InvalidBackprop

PID = "C09"
LEVEL = "exploration"
RULE = ("seeded histories: 1-3 leaves -> 2-5 shared intermediates (arithmetic, unary, views) -> 2-4 terminal tensors L_i; then any "
        "interleaving of L_i.backward(), clear_graph(t), in-place updates of shared tensors, NEW operations re-using shared tensors (which "
        "refill the consumer sets the detection relies on), view creation and further backward calls; finally L.backward() for a terminal that "
        "was never itself back-propagated or cleared. Reference: the same history truncated right after L was recorded, followed immediately by "
        "L.backward() (what the recorded forward computation yields). Verdict at the final call: InvalidBackprop -> fine; normal return -> every "
        "tensor that was upstream of L at record time and whose view family was not mutated in place afterwards must hold exactly the reference "
        "gradient (a stale value from another graph, None, or a value computed from post-mutation data all fail); any other exception -> "
        "violation of the either/or. Non-trivial: some statement between L's recording and the final call cleared part of L's graph; "
        "distinct = event-sequence signature.")
ASSUMPTIONS = ["MyGrad's backward on an undisturbed graph (verified by C01/C05) provides the reference gradients",
               "tensors mutated in place after L was recorded denote a different value afterwards and are not compared (their upstream is)"]
TIERS = {"quick": {"cases": 20000, "events": (2, 8)}, "thorough": {"cases": 400000, "events": (3, 16)}}
FLOORS = {"quick": {"final_calls": 5000, "partially_cleared": 2000, "returned_and_compared": 500},
          "thorough": {"final_calls": 25000, "partially_cleared": 10000, "returned_and_compared": 2500}}


def gen_case(rng, cfg, idx):
    b = B.Builder(rng)
    shape = B.rand_shape(rng, 2, 3, 1) or (2,)
    leaves = [b.leaf(shape, lo=0.4, hi=1.6, constant=True if (i and rng.random() < 0.25) else None) for i in range(rng.randint(1, 3))]
    for st in b.prog:
        if st["k"] == "leaf" and rng.random() < 0.25:
            # a tensor made WITHOUT a copy from a slice of a larger user-owned buffer: its array is a view, the buffer its base
            st["layout"], st["nocopy"] = rng.choice(["strided", "neg"]), True
            b.it.env[st["out"]] = b.it.make_array(st) if hasattr(b.it, "make_array") else b.it.env[st["out"]]
    shared = []
    for _ in range(rng.randint(2, 5)):
        src = rng.choice(leaves + shared)
        c = rng.random()
        if c < 0.45:
            other = rng.choice(leaves + shared + [None])
            y = B.R(other) if other else round(rng.uniform(0.5, 1.5), 2)
            n = b.call(rng.choice(["multiply", "add", "subtract"]), [B.R(src), y], sp=rng.choice(["mg", "op"]), prefix="y")
        elif c < 0.6:
            n = b.call(rng.choice(["sin", "tanh", "square", "exp"]), [B.R(src)], sp="mg", prefix="y")
        elif c < 0.75:
            # operations with per-operation backward state and several tensor operands (einsum's operand cache, n-ary sequences)
            same = [t for t in leaves + shared if np.shape(b.val(t)) == np.shape(b.val(src))]
            o2 = rng.choice(same)
            r2 = rng.random()
            if r2 < 0.6:
                n = b.call("einsum", ["...,...->...", B.R(src), B.R(o2)] if rng.random() < 0.5 else ["...,...->...", B.R(o2), B.R(src)], sp="mg", prefix="y")
            else:
                ops_ = [B.R(src), B.R(o2)] + ([B.R(rng.choice(same))] if rng.random() < 0.4 else [])
                n = b.call(rng.choice(["add_sequence", "multiply_sequence"]), ops_, sp="mg", prefix="y")
        else:
            n = GI.s_view(b, src)
        if n:
            shared.append(n)
    if not shared:
        return None
    terms = []
    for _ in range(rng.randint(2, 4)):
        srcs = rng.sample(shared, rng.randint(1, min(2, len(shared))))
        t = None
        if len(srcs) == 2 and np.shape(b.val(srcs[0])) == np.shape(b.val(srcs[1])):
            t = b.call("multiply", [B.R(srcs[0]), B.R(srcs[1])], sp="op", prefix="p")
        else:
            t = b.call(rng.choice(["square", "sin", "multiply"]), [B.R(srcs[0])] + ([2.5] if False else []), sp="mg", prefix="p") \
                if rng.random() < 0.6 else b.call("multiply", [B.R(srcs[0]), round(rng.uniform(1.5, 3), 2)], sp="op", prefix="p")
        if t is None:
            continue
        L = b.call("sum", [B.R(t)], sp="mg", prefix="L")
        if L:
            terms.append(L)
    if len(terms) < 2:
        return None
    final = rng.choice(terms)
    others = [t for t in terms if t != final]
    nev = rng.randint(*cfg["events"])
    seeded = rng.random() < 0.15
    if seeded:   # the known pattern: backward on a sibling graph, then re-use of a shared tensor in a new op
        ev = [("backward", rng.choice(others)), ("reuse", rng.choice(shared))]
        if rng.random() < 0.5:
            ev.insert(1, ("inplace", rng.choice(shared)))
    elif rng.random() < 0.07:
        # a call on a shared tensor fails, a sibling graph is back-propagated, then the user tries to overwrite the tensor's memory: the final
        # graph still reads it, so the guard must still hold (lock counts are per graph; a failed call must give back exactly what it took)
        t_ = rng.choice(shared + leaves)
        ev = [("failcall", t_), ("backward", rng.choice(others)), ("rawwrite", t_)]
        if rng.random() < 0.5:
            ev.insert(0, ("failcall", rng.choice(shared + leaves)))
    else:
        ev = []
        for _ in range(nev):
            c = rng.random()
            if c < 0.35:
                ev.append(("backward", rng.choice(others)))
            elif c < 0.5:
                ev.append(("clear", rng.choice(others + shared)))
            elif c < 0.7:
                ev.append(("inplace", rng.choice(shared + leaves)))
            elif c < 0.84:
                ev.append(("reuse", rng.choice(shared + leaves)))
            elif c < 0.9:
                ev.append(("failcall", rng.choice(shared + leaves)))
            elif c < 0.95:
                ev.append(("rawwrite", rng.choice(shared + leaves)))
            else:
                ev.append(("view", rng.choice(shared + leaves)))
    rec = len(b.prog)   # everything up to here defines L's recorded forward computation
    for kind, t in ev:
        if kind in ("backward",):
            b.prog.append({"k": "backward", "tgt": t, "seed": None})
        elif kind == "clear":
            b.prog.append({"k": "clear", "tgt": t})
        elif kind == "inplace":
            c = rng.random()
            if c < 0.5:
                GI.s_setitem(b, t, adv_prob=0.2)
            elif c < 0.8:
                GI.s_aug(b, t)
            elif GI.s_uout(b, t):
                # out=<the shared tensor>, sometimes with an explicit constant= (an in-place target keeps its own flag, whatever is asked)
                if rng.random() < 0.5 and "where" not in b.prog[-1].get("kw", {}):
                    b.prog[-1].setdefault("kw", {})["constant"] = rng.choice([True, False])
                    b.prog[-1]["sp"] = "mg"
        elif kind == "reuse":
            b.call(rng.choice(["multiply", "add"]), [B.R(t), round(rng.uniform(2, 5), 1)], sp=rng.choice(["mg", "op"]), prefix="z")
        elif kind == "failcall":
            # a call on the shared tensor that FAILS (before / inside the kernel, or while its result is wrapped): it must not count as re-use
            how = rng.choice(["late", "late", "shape"])
            if how == "late":
                b.prog.append({"k": "call", "out": "__f", "fn": rng.choice(["multiply", "add"]), "a": [B.R(t), 2.0], "kw": {"dtype": ["dt", "complex64"]},
                               "sp": "mg", "expect_raise": True})
            else:
                bad = enc_arr(np.ones(tuple(d + 2 for d in np.shape(b.val(t))) + (3,)))
                b.prog.append({"k": "call", "out": "__f", "fn": "add", "a": [B.R(t), bad], "sp": "mg", "expect_raise": True})
        elif kind == "rawwrite":
            # the user tries to write into the tensor's array directly: refused (read-only) as long as a live graph reads that memory
            b.prog.append({"k": "rawwrite", "tgt": t, "via": rng.choice(["self", "root"])})
        elif kind == "view":
            GI.s_view(b, t)
    b.prog.append({"k": "backward", "tgt": final, "seed": None})
    return {"prog": b.prog, "L": final, "rec": rec, "seeded": seeded, "reuse_before_retry": rng.random() < 0.3}


def upstream_names(env, L):
    ids = {}
    for n, v in env.items():
        if mgrun.is_tensor(v):
            ids.setdefault(id(v), []).append(n)     # (one tensor object may carry several names: atleast_kd(x) can be x itself)
    seen, out, stack = set(), set(), [env[L]]
    while stack:
        x = stack.pop()
        if id(x) in seen:
            continue
        seen.add(id(x))
        if id(x) in ids:
            out.update(ids[id(x)])
        if x._creator is not None:
            stack += list(x._creator.variables)
        if x._base is not None:
            stack.append(x._base)
    return out


def detection_defeated(L):
    """True if some op reachable from L has an input that (a) no longer records the op as a consumer and (b) has a live consumer
    again, or whose creator is gone while it still feeds the op (the partial-clear detection `not var._ops` cannot fire)."""
    seen, stack = set(), [L]
    while stack:
        t = stack.pop()
        if id(t) in seen:
            continue
        seen.add(id(t))
        op = t._creator
        if op is None:
            continue
        for v in op.variables:
            live = [r() for r in v._ops if r() is not None]
            # (the library tests the raw set `not var._ops`: a consumer that has since died still counts, its dead weak reference stays in the set)
            if not any(o is op for o in live) and len(v._ops) > 0:
                return True
            stack.append(v)
    return False


def graph_cyclic(L, through_constants=True):
    """True if the creator/variables graph reachable from L contains a cycle (an in-place update on a cleared tensor whose
    dependants were still alive). On such a graph the unchanged library raises InvalidBackprop - provided the cycle does not run
    through a constant tensor, which back-propagation never enters (through_constants=False ignores those)."""
    WHITE, GREY, BLACK = 0, 1, 2
    color = {}
    stack = [(L, iter(L._creator.variables if L._creator is not None else ()))]
    color[id(L)] = GREY
    while stack:
        node, it_ = stack[-1]
        nxt = next(it_, None)
        if nxt is None:
            color[id(node)] = BLACK
            stack.pop()
            continue
        if not through_constants and nxt.constant:
            continue
        c = color.get(id(nxt), WHITE)
        if c == GREY:
            return True
        if c == WHITE:
            color[id(nxt)] = GREY
            stack.append((nxt, iter(nxt._creator.variables if nxt._creator is not None else ())))
    return False


def run_case(case):
    res = _run_case(case)
    if res.get("viol") and res.get("counters", {}).get("rawwrites_let_through") and not case.get("_norw"):
        # counterfactual for classification: the same history without the raw writes.  If it is clean, a write that the memory guard let
        # through is what changed the gradients - never one of the recorded mechanisms
        prog2 = [st for st in case["prog"] if st["k"] != "rawwrite"]
        res2 = _run_case(dict(case, prog=prog2, _norw=True))
        if not any((v.get("mech") or "").startswith("silent-wrong-gradient") for v in res2.get("viol", [])):
            for v in res["viol"]:
                if (v.get("mech") or "").startswith("silent-wrong-gradient"):
                    v["rawwrite_caused"] = True
    return res


def _run_case(case):
    prog, L, rec = case["prog"], case["L"], case["rec"]
    cnt, viol, sets = {"final_calls": 0}, [], {}
    # reference: history truncated after L's recording, then L.backward() at once
    REG.reset()
    ref = Interp("mg")
    ref.run(prog[:rec], catch=True)
    up = upstream_names(ref.env, L)
    pre_creators = {n: ref.env[n]._creator is not None for n in up}
    rec_const = {n: bool(ref.env[n].constant) for n in up if mgrun.is_tensor(ref.env[n])}    # the flags L's graph was RECORDED with
    ref.env[L].backward()
    ref_grads = {n: (None if ref.env[n].grad is None else ref.env[n].grad.copy()) for n in up if not ref.env[n].constant}
    # the history itself
    REG.reset()
    it = Interp("mg")
    it.run(prog[:-1], catch=True)
    other_exc = [type(e).__name__ for i, e in it.raised.items() if not isinstance(e, InvalidBackprop)]
    # did anything clear part of L's recorded graph?
    cleared = any(mgrun.is_tensor(it.env.get(n)) and pre_creators[n] and it.env[n]._creator is None for n in up if n != L) or \
        any(mgrun.is_tensor(it.env.get(n)) and not any(r() is not None for r in it.env[n]._ops) for n in up if n != L)
    mutated = set()
    sh = Shadow(prog[:-1]).run_all()
    for i in range(rec, len(prog) - 1):
        st = prog[i]
        if st["k"] in ("setitem", "aug", "uout", "setshape") and i not in it.raised:
            o = sh.owner.get(st["tgt"])
            mutated |= {n for n, oo in sh.owner.items() if oo == o}
    events = [st["k"] + ("!" if i in it.raised else "") + ("+" if i in getattr(it, "rawwrites_ok", ()) else "") for i, st in enumerate(prog[rec:-1], start=rec)]
    cnt["rawwrite_attempts"] = sum(1 for st in prog[rec:-1] if st["k"] == "rawwrite")
    cnt["rawwrites_let_through"] = len(getattr(it, "rawwrites_ok", ()))
    # was any tensor of L's recorded graph SUCCESSFULLY used again (new operation or in-place update) after the first clear / backward?
    reused_ok = False
    fc_ = next((i for i in range(rec, len(prog) - 1) if prog[i]["k"] in ("backward", "clear")), None)
    if fc_ is not None:
        for i in range(fc_ + 1, len(prog) - 1):
            if i not in it.raised and prog[i]["k"] in ("call", "setitem", "aug", "uout", "setshape") and (set(mgrun.stmt_refs(prog[i])) & set(up)):
                reused_ok = True
                break
    const_mut_after_clear = False
    first_clear = next((i for i in range(rec, len(prog) - 1) if prog[i]["k"] in ("backward", "clear")), None)
    if first_clear is not None:
        for i in range(first_clear + 1, len(prog) - 1):
            st = prog[i]
            if st["k"] in ("setitem", "aug", "uout", "setshape") and i not in it.raised:
                o = sh.owner.get(st["tgt"])
                fam = {n for n, oo in sh.owner.items() if oo == o}
                # (constant when the graph was recorded - a tensor that an in-place statement has since *turned* constant is not this mechanism)
                if any(n in up and rec_const.get(n) for n in fam):
                    const_mut_after_clear = True
    # mechanism probe (for classification only): is there an operation in L's recorded graph one of whose inputs no longer lists
    # it as a consumer although that input's consumer set is non-empty again (cleared, then refilled by re-use)?
    defeated = detection_defeated(it.env[L])
    cyclic = graph_cyclic(it.env[L], through_constants=False)
    if it.env[L]._creator is None:
        # L itself was cleared (it became upstream of another tensor through an in-place update and that tensor was cleared or
        # back-propagated): L is a graph-less leaf now, backward() on it has nothing to compute - outside the property's premise
        return {"viol": [], "counters": {"L_itself_cleared": 1}, "skip": "L itself cleared", "sets": {"events": sorted(set(events))}}
    cnt["final_calls"] += 1
    outcome = None
    try:
        it.env[L].backward()
        outcome = "returned"
    except InvalidBackprop:
        outcome = "InvalidBackprop"
        # the refusal must be stable: asking again must refuse again (or give exactly the recorded gradients) - also when the tensors
        # whose consumers were cleared are first re-used in new operations (which defeats the detection: known finding, but only
        # values changed by an in-place update can then leak into the gradients)
        keep_alive = []
        if case.get("reuse_before_retry"):
            for n in sorted(up):
                t = it.env.get(n)
                if n != L and mgrun.is_tensor(t) and not t.constant and not any(r() is not None for r in t._ops):
                    keep_alive.append(t * 1.0)
                    cnt["reused_before_retry"] = cnt.get("reused_before_retry", 0) + 1
            defeated = detection_defeated(it.env[L])
        try:
            it.env[L].backward()
            outcome = "returned"
            cnt["returned_on_retry"] = 1
        except InvalidBackprop:
            pass
        except Exception as e:
            viol.append({"monitor": "either-or", "mech": f"retry-raises:{type(e).__name__}", "msg": f"second L.backward() raised {type(e).__name__}"})
    except Exception as e:
        outcome = "other:" + type(e).__name__
        viol.append({"monitor": "either-or", "mech": f"final-backward-raises:{type(e).__name__}", "earlier_refusal": "backward!" in events,
                     "msg": f"final backward raised {type(e).__name__} (neither InvalidBackprop nor a result) after events {events}"})
    if cleared:
        cnt["partially_cleared"] = 1
    cnt["outcome_" + outcome.split(":")[0]] = 1
    if outcome == "returned":
        cnt["returned_and_compared"] = 1
        for n, g in ref_grads.items():
            if n in mutated:
                continue
            t = it.env.get(n)
            if not mgrun.is_tensor(t):
                continue
            g2 = t.grad
            cnt["grads_compared"] = cnt.get("grads_compared", 0) + 1
            if (g is None) != (g2 is None) or (g is not None and (g.shape != g2.shape or not np.allclose(g, g2, rtol=1e-12, atol=1e-12, equal_nan=True))):
                viol.append({"monitor": "recorded-gradient", "mech": "silent-wrong-gradient" + (":cleared" if cleared else ":uncleared"),
                             # the known finding needs: detection defeated by re-use, an acyclic graph, and (for a retry) re-use between
                             # the refusal and the retry. (Cleared parts of the graph are then silently skipped, so missing / partial
                             # gradients occur even when no value was changed in place.)
                             "defeated": bool(defeated and not cyclic and (reused_ok or cnt.get("reused_before_retry"))
                                              and (not cnt.get("returned_on_retry") or cnt.get("reused_before_retry"))),
                             # second known mechanism: a CONSTANT tensor of L's recorded graph was updated in place after another graph's
                             # backward()/clear_graph() had emptied its consumer list (constants are exempt from the cleared-graph test)
                             "const_mutated_after_clear": bool(const_mut_after_clear),
                             "msg": f"final backward returned normally but {n}.grad = {None if g2 is None else g2.ravel()[:4]} while the recorded "
                                    f"computation gives {None if g is None else g.ravel()[:4]}; events {events}"})
                break
    sets["outcomes"] = [outcome + ("|cleared" if cleared else "|intact")]
    sets["events"] = sorted(set(events))
    return {"viol": viol[:3], "counters": cnt, "sets": sets, "sig": "-".join(events) + "|" + outcome, "nontrivial": bool(cleared)}


def classify(v, case):
    m = v.get("mech") or v["monitor"]
    if v.get("rawwrite_caused"):
        return "silent-wrong-gradient:raw-write-let-through"
    if m.startswith("silent-wrong-gradient") and v.get("defeated"):
        return "reuse-refills-consumers"
    if m.startswith("silent-wrong-gradient") and v.get("const_mutated_after_clear"):
        return "inplace-on-shared-constant-after-clear"
    return m

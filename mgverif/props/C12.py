"""C12 — operations never modify their inputs, and gradients are never aliased."""
import hashlib
import random
import numpy as np

from mgverif.hooks import REG
from mgverif.prog import Interp, enc_arr
from mgverif.oracle import Shadow
from mgverif import mgrun, ops_table as OT
from mgverif.gen.dag import gen_dag
from mgverif.gen import build as B
from mgverif.props import C05, C02
from mgverif.cli import case_seed

PID = "C12"
LEVEL = "exploration"
RULE = ("three seeded workloads: random functional DAG programs (C01's generator) with the seed of backward() passed as nothing / Python scalar "
        "/ same-dtype array (the no-copy path) / broadcastable array / other-dtype array / tensor; in-place/view histories (C05's generator); "
        "and one single-operation program per op-table spec and option sample (C02's generator: every Operation class is driven). Monitors, "
        "attached to every statement: M-immut - SHA-1 of every caller-owned object (source arrays of leaves, raw array operands, index arrays "
        "and lists, literal operands, the seed) and of every live tensor's data before and after the statement; only the declared out=/in-place "
        "target's view family may change, and backward() may change nothing. M-alias after backward(): for every pair of tensors, gradients share "
        "memory only if the tensors' data do; no gradient shares memory with any tensor's data, with a caller array or with the seed; dynamic "
        "variant: each gradient in turn is overwritten in place and everything else is re-hashed - another gradient may change only if the two "
        "tensors share memory, and no data and no caller array may change. Non-trivial: >=2 gradients checked; distinct = structure hash.")
ASSUMPTIONS = ["for tensors wrapping a caller array without a copy, the caller array of an in-place TARGET is not judged (MyGrad documents writing to a fresh buffer)"]
TIERS = {"quick": {"cases": 4000, "nodes": (2, 9), "nstmts": (3, 9)}, "thorough": {"cases": 150000, "nodes": (3, 24), "nstmts": (4, 20)}}
FLOORS = {"quick": {"immut_stmt_checks": 20000, "alias_pairs": 20000, "perturbations": 5000},
          "thorough": {"immut_stmt_checks": 100000, "alias_pairs": 100000, "perturbations": 25000}}
SPECS = sorted(OT.SPECS)
NOGRU = [f for f in SPECS if f != 'gru']


FIXED_GUARD_OFF = [   # products over data with exactly one zero in a lane, the whole program inside mem_guard_off (always present)
    ("prod", [3], [2.0, 0.0, 3.0], {}),
    ("prod", [2, 3], [2.0, 0.0, 3.0, 1.5, 4.0, 0.5], {"axis": 1}),
    ("prod", [2, 3], [2.0, 1.0, 3.0, 0.0, 4.0, 0.5], {"axis": 0, "keepdims": True}),
    ("cumprod", [4], [2.0, 3.0, 0.0, 1.5], {}),
    ("prod", [2, 2], [0.0, 2.0, 3.0, 0.0], {"axis": 1}),
]


def gen_case(rng, cfg, idx):
    if idx < 3 * len(FIXED_GUARD_OFF) and idx % 3 == 2:
        fn, shp, data, kw = FIXED_GUARD_OFF[idx // 3]
        prog = [{"k": "leaf", "out": "x1", "kind": "tensor", "dtype": "float64", "shape": shp, "data": data, "constant": None, "layout": "C", "guard_off": True},
                {"k": "call", "out": "p2", "fn": fn, "a": [["r", "x1"]], "kw": dict(kw), "sp": "mg", "guard_off": True},
                {"k": "call", "out": "L3", "fn": "sum", "a": [["r", "p2"]], "sp": "mg", "guard_off": True},
                {"k": "backward", "tgt": "L3", "seed": None, "guard_off": True}]
        return {"kind": "op:" + fn, "prog": prog, "L": "L3"}
    if idx % 40 == 7:
        shp = B.rand_shape(rng, 3, 3, 1)
        vals = lambda: B.rand_values(rng, shp).ravel().tolist()
        kind = rng.choice(["array", "tensor"])
        prog = [{"k": "leaf", "out": "x1", "kind": "tensor", "dtype": "float64", "shape": list(shp), "data": vals(), "constant": None, "layout": "C"},
                {"k": "leaf", "out": "__g", "kind": kind, "dtype": "float64", "shape": list(shp), "data": vals(), "constant": rng.choice([True, None]) if kind == "tensor" else None, "layout": "C"},
                {"k": "call", "out": "v2", "fn": "getitem", "a": [["r", "x1"], ["e"]], "sp": "mg"},
                {"k": "backward", "tgt": "x1", "seed": ["r", "__g"]}]
        return {"kind": "leafseed", "prog": prog, "L": "x1"}
    if idx % 40 in (13, 27):
        # a masked ufunc (where=) whose local derivative is the identity or a constant, writing into a caller-owned plain array, back-propagated
        # directly with a caller-owned seed of the result's own dtype and layout: the seed reaches Operation.backward un-copied
        shp = B.rand_shape(rng, 2, 4, 1)
        vals = lambda: B.rand_values(rng, shp).ravel().tolist()
        n = int(np.prod(shp))
        fn = rng.choice(["add", "subtract", "positive", "negative", "multiply", "add", "positive"])
        mask = [bool(rng.random() < 0.5) for _ in range(n)]
        if all(mask) or not any(mask):
            mask[0] = not mask[0]
        prog = [{"k": "leaf", "out": "x1", "kind": "tensor", "dtype": "float64", "shape": list(shp), "data": vals(), "constant": None, "layout": "C"},
                {"k": "leaf", "out": "y2", "kind": rng.choice(["tensor", "array"]), "dtype": "float64", "shape": list(shp), "data": vals(), "constant": None, "layout": "C"},
                {"k": "leaf", "out": "__m", "kind": "array", "dtype": "bool", "shape": list(shp), "data": mask, "layout": "C"},
                {"k": "leaf", "out": "__o", "kind": "array", "dtype": "float64", "shape": list(shp), "data": [0.0] * n, "layout": "C"},
                {"k": "leaf", "out": "__g", "kind": "array", "dtype": "float64", "shape": list(shp), "data": vals(), "layout": "C"}]
        args = [["r", "x1"]] if fn in ("positive", "negative") else ([["r", "x1"], ["r", "y2"]] if rng.random() < 0.6 else [["r", "y2"], ["r", "x1"]])
        prog.append({"k": "call", "out": "z3", "fn": fn, "a": args, "kw": {"where": ["r", "__m"], "out": ["r", "__o"]}, "sp": rng.choice(["mg", "np"])})
        if idx % 40 == 27:
            # the masked result is an INTERMEDIATE tensor: its stored gradient must not be rewritten by the pass through its creator either
            prog.append({"k": "call", "out": "w4", "fn": "multiply", "a": [["r", "z3"], 3.0], "sp": "op"})
            prog.append({"k": "backward", "tgt": "w4", "seed": ["r", "__g"]})
            return {"kind": "maskedseed", "prog": prog, "L": "w4", "mid": "z3"}
        prog.append({"k": "backward", "tgt": "z3", "seed": ["r", "__g"]})
        return {"kind": "maskedseed", "prog": prog, "L": "z3"}
    r = idx % 3
    if r == 0:
        for _ in range(20):
            c = gen_dag(rng, nodes=cfg["nodes"], seed_kinds=False)
            if c is None:
                continue
            prog = c["prog"]
            L = c["L"]
            it = Interp("np")
            it.run(prog[:-1], catch=False)
            shp = np.shape(it.env[L])
            k = rng.random()
            pre = []
            if k < 0.15:
                seed = None
            elif k < 0.25:
                seed = 1.5
            elif k < 0.5:
                seed = ["r", "__g"]
                pre = [{"k": "leaf", "out": "__g", "kind": "array", "dtype": "float64", "shape": list(shp), "data": B.rand_values(rng, shp).ravel().tolist(), "layout": "C"}]
            elif k < 0.65:
                bs = B.bcast_variants(rng, shp)
                seed = ["r", "__g"]
                pre = [{"k": "leaf", "out": "__g", "kind": "array", "dtype": "float64", "shape": list(bs), "data": B.rand_values(rng, bs).ravel().tolist(), "layout": "C"}]
            elif k < 0.75:
                seed = ["r", "__g"]
                pre = [{"k": "leaf", "out": "__g", "kind": "array", "dtype": "float32", "shape": list(shp), "data": B.rand_values(rng, shp).astype("float32").ravel().tolist(), "layout": "C"}]
            else:
                seed = ["r", "__g"]
                pre = [{"k": "leaf", "out": "__g", "kind": "tensor", "dtype": "float64", "shape": list(shp), "data": B.rand_values(rng, shp).ravel().tolist(),
                        "constant": rng.choice([True, None]), "layout": "C"}]
            prog = prog[:-1] + pre + [{"k": "backward", "tgt": L, "seed": seed}]
            return {"kind": "dag", "prog": prog, "L": L}
        return None
    if r == 1:
        c = C05.gen_case(rng, {"nstmts": cfg["nstmts"], "two_epoch": "random"}, idx)
        return None if c is None else {"kind": "hist", "prog": c["prog"], "L": c["L"]}
    fn = "gru" if idx % 48 == 32 else NOGRU[(idx // 3) % len(NOGRU)]   # gru (numba JIT) only on indices that land on one shard
    zero_fn = fn in C02.ZERO_FNS
    # (products: mostly the variant with exact zeros among the factors, whose backward pass patches a working copy of the operand)
    c = C02.gen_single(rng, fn, k=rng.choice([1, 4, 1, 4, 0, 2]) if zero_fn else rng.randrange(6))
    if c is None:
        return None
    prog = c["prog"]
    if prog[-1].get("seed") is not None and rng.random() < 0.7:   # hand the cotangent over as a caller-owned array
        s = prog[-1]["seed"]
        prog = prog[:-1] + [{"k": "leaf", "out": "__g", "kind": "array", "dtype": s[1], "shape": s[2], "data": s[3], "layout": "C"},
                            {"k": "backward", "tgt": prog[-1]["tgt"], "seed": ["r", "__g"]}]
    if rng.random() < (0.5 if zero_fn else 0.25):
        # the whole program with the memory guard switched off: the library can then write into operand arrays unhindered, so nothing but
        # its own discipline keeps inputs intact
        prog = [dict(st, guard_off=True) for st in prog]
    return {"kind": "op:" + fn, "prog": prog, "L": c["L"]}


def dg(a):
    a = np.asarray(a)
    return hashlib.sha1(np.ascontiguousarray(a).tobytes() + str(a.dtype).encode() + str(a.shape).encode()).hexdigest()


def caller_objects(it):
    out = {}
    for n, a in it.leaf_arrays.items():
        out["src:" + n] = a
    for n, v in it.env.items():
        if isinstance(v, np.ndarray):
            out["arr:" + n] = v
        elif isinstance(v, list):
            out["list:" + n] = np.asarray(v)
    for j, a in enumerate(it.literals):
        out[f"lit:{j}"] = a
    return out


def tensor_data(it):
    return {n: v.data for n, v in it.env.items() if mgrun.is_tensor(v)}


def run_case(case):
    prog = case["prog"]
    REG.reset()
    it = Interp("mg")
    sh = Shadow(prog)
    cnt, viol, sets = {"immut_stmt_checks": 0, "alias_pairs": 0, "perturbations": 0}, [], {}
    for i, st in enumerate(prog):
        sh.step()
        before_c = {k: dg(a) for k, a in caller_objects(it).items()}
        before_t = {k: dg(a) for k, a in tensor_data(it).items()}
        nlit = len(it.literals)
        try:
            with np.errstate(all="ignore"):
                it.exec(i, st)
        except Exception as e:
            return {"viol": [], "skip": f"statement raised {type(e).__name__}", "counters": {"stmt_raised": 1}}
        cnt["immut_stmt_checks"] += 1
        fam = set()
        if st["k"] in ("setitem", "aug", "uout", "setshape"):
            o = sh.owner.get(st["tgt"])
            fam = {n for n, oo in sh.owner.items() if oo == o}
        after_c = caller_objects(it)
        out_target = st.get("kw", {}).get("out") if st["k"] == "call" else None
        out_target = out_target[1] if isinstance(out_target, list) and out_target[:1] == ["r"] else None
        for k, h in before_c.items():
            if k in after_c and dg(after_c[k]) != h:
                nm = k.split(":", 1)[1]
                if k.startswith("src:") and nm in fam:
                    continue
                if nm == out_target:
                    continue     # the array the caller handed over as out= is the one thing the call is asked to write
                viol.append({"monitor": "M-immut", "mech": f"caller-object-modified:{st['k']}:{st.get('fn', st.get('op', ''))}",
                             "msg": f"stmt {i} ({st['k']} {st.get('fn', '')}) modified caller-owned object {k}"})
        for j in range(nlit, len(it.literals)):   # literals decoded for this very statement: compare with a fresh decode
            pass
        after_t = tensor_data(it)
        for k, h in before_t.items():
            if k in fam or k not in after_t:
                continue
            if dg(after_t[k]) != h:
                viol.append({"monitor": "M-immut", "mech": f"tensor-data-modified:{st['k']}:{st.get('fn', st.get('op', ''))}",
                             "msg": f"stmt {i} ({st['k']} {st.get('fn', '')}) modified the data of tensor {k} which is not its target"})
        if viol:
            break
    if viol:
        return {"viol": viol[:3], "counters": cnt, "sets": sets}
    # literal operands (index arrays, value arrays, seeds) must still equal their encoded form: re-decode the program's literals
    chk = Interp("np")
    chk.env = dict(it.env)
    for st in prog:
        for r_ in mgrun.stmt_refs(st):
            chk.env.setdefault(r_, None)
        for a in list(st.get("a", [])) + [st.get("index"), st.get("value"), st.get("seed")] + list(st.get("kw", {}).values()):
            if isinstance(a, list) and a and a[0] in ("a", "t", "l"):
                chk.dec(a)
    if len(chk.literals) == len(it.literals):
        for j, (a, b) in enumerate(zip(chk.literals, it.literals)):
            cnt["literal_checks"] = cnt.get("literal_checks", 0) + 1
            if a.shape != b.shape or not np.array_equal(a, b, equal_nan=True):
                viol.append({"monitor": "M-immut", "mech": "literal-operand-modified", "msg": f"literal operand #{j} was modified in place: {b.ravel()[:4]} vs {a.ravel()[:4]}"})
    if case.get("mid") and not viol:
        # the gradient stored on the intermediate (masked) tensor is what flowed into it - at masked-out positions too
        cnt["masked_mid_checks"] = cnt.get("masked_mid_checks", 0) + 1
        gm = it.env[case["mid"]].grad
        want = 3.0 * np.asarray(it.env["__g"])
        if gm is None or gm.shape != want.shape or not np.array_equal(gm, want):
            viol.append({"monitor": "M-immut", "mech": "intermediate-gradient-rewritten", "msg": f"{case['mid']}.grad is {None if gm is None else gm.ravel()[:4]}, the gradient that flowed into it is {want.ravel()[:4]}"})
    # ---- M-alias after the final backward
    tens = {n: v for n, v in it.env.items() if mgrun.is_tensor(v)}
    nbw = sum(1 for st in prog if st["k"] in ("backward", "clear"))
    for n, v in list(tens.items()):
        try:
            v.grad
        except Exception as e:
            # known-finding probe: a view that MyGrad still attaches to a base whose memory it no longer shares (see classify)
            stale = v.base is not None and v.creator is not None and nbw >= 2 and not np.shares_memory(v.data, v.base.data)
            if not stale and v.base is not None and v.creator is not None and nbw >= 2:
                # ... or whose recorded view operation can no longer be replayed on its recorded parent at all (the parent's shape
                # was assigned in a later epoch without the dangling view being re-created)
                import mygrad as _mg
                t_, hops = v, 0
                while not stale and t_.base is not None and t_.creator is not None and hops < 30:
                    p_ = t_.creator.variables[0]
                    try:
                        with _mg.no_autodiff:
                            if t_._replay_op(p_).shape != t_.shape:
                                stale = True
                    except Exception:
                        stale = True
                    t_, hops = p_, hops + 1
            viol.append({"monitor": "M-alias", "mech": "grad-getter-raises:" + type(e).__name__, "stale_family": bool(stale),
                         "msg": f"reading {n}.grad raised {type(e).__name__}: {e}"})
            del tens[n]
    for n, v in list(tens.items()):   # t.copy() of a view (and of its base): the copy's gradient must be its own array
        if v.base is not None and v.grad is not None and len(tens) < 40:
            tens["copy:" + n] = v.copy()
            cnt["copies_checked"] = cnt.get("copies_checked", 0) + 1
    grads = {n: v.grad for n, v in tens.items()}
    gn = [n for n, g in grads.items() if g is not None and g.size]
    callers = caller_objects(it)
    for a in range(len(gn)):
        ga = grads[gn[a]]
        for n2, t2 in tens.items():
            cnt["alias_pairs"] += 1
            if t2.data.size and np.shares_memory(ga, t2.data):
                viol.append({"monitor": "M-alias", "mech": "grad-aliases-tensor-data", "msg": f"{gn[a]}.grad shares memory with the data of tensor {n2}"})
        for k, c in callers.items():
            if c.size and np.shares_memory(ga, c):
                viol.append({"monitor": "M-alias", "mech": "grad-aliases-caller-array" + (":seed" if k.endswith("__g") else ""),
                             "msg": f"{gn[a]}.grad shares memory with caller-owned object {k}"})
        for b in range(a + 1, len(gn)):
            cnt["alias_pairs"] += 1
            if np.shares_memory(ga, grads[gn[b]]) and not np.shares_memory(tens[gn[a]].data, tens[gn[b]].data):
                ta, tb2 = tens[gn[a]], tens[gn[b]]
                def chain(t):
                    # the tensor, its base, and the parents MyGrad would replay its view operations from
                    out, seen = [t], 0
                    if t.base is not None:
                        out.append(t.base)
                    while t.base is not None and t.creator is not None and seen < 50:
                        t = t.creator.variables[0]
                        out.append(t)
                        seen += 1
                    return {id(q) for q in out}
                related = bool(chain(ta) & chain(tb2))
                viol.append({"monitor": "M-alias", "mech": "grads-alias-unrelated-tensors",
                             # mechanism probe for the known finding: MyGrad itself still relates the two as members of one view family (base
                             # pointer / view-replay parents) although their memory was separated, and an earlier backward() (epoch boundary) precedes
                             "stale_family": related and sum(1 for st in prog if st["k"] in ("backward", "clear")) >= 2,
                             "msg": f"{gn[a]}.grad and {gn[b]}.grad share memory, the tensors do not"})
    if not viol:
        # dynamic variant
        for n in gn:
            g = grads[n]
            if not g.flags.writeable:
                continue
            hd = {k: dg(t.data) for k, t in tens.items()}
            hc = {k: dg(c) for k, c in callers.items()}
            hg = {k: dg(grads[k]) for k in gn if k != n}
            g += 1.0
            cnt["perturbations"] += 1
            for k, t in tens.items():
                if dg(t.data) != hd[k]:
                    viol.append({"monitor": "M-alias", "mech": "grad-edit-changes-tensor-data", "msg": f"editing {n}.grad in place changed the data of tensor {k}"})
            for k, c in callers.items():
                if dg(c) != hc[k]:
                    viol.append({"monitor": "M-alias", "mech": "grad-edit-changes-caller-array" + (":seed" if k.endswith("__g") else ""),
                                 "msg": f"editing {n}.grad in place changed caller-owned object {k}"})
            for k in hg:
                if dg(grads[k]) != hg[k] and not np.shares_memory(tens[k].data, tens[n].data):
                    viol.append({"monitor": "M-alias", "mech": "grad-edit-changes-unrelated-grad", "msg": f"editing {n}.grad changed {k}.grad although the tensors share no memory"})
            g -= 1.0
            if viol:
                break
    sets["kinds"] = [case["kind"].split(":")[0]]
    sets["opclasses"] = sorted(REG.opclasses)
    return {"viol": viol[:3], "counters": cnt, "sets": sets, "sig": mgrun.struct_sig(prog), "nontrivial": len(gn) >= 2}


def classify(v, case):
    m = v.get("mech") or v["monitor"]
    if (m == "grads-alias-unrelated-tensors" or m.startswith("grad-getter-raises")) and v.get("stale_family"):
        return "stale-view-keeps-base-across-epochs"
    return m


def witness_cases():
    return [{"kind": "hist", "L": "s2", "prog": [
        {"k": "leaf", "out": "x", "kind": "tensor", "dtype": "float64", "shape": [3], "data": [1.0, 2.0, 3.0], "constant": None, "layout": "C"},
        {"k": "call", "out": "v", "fn": "getitem", "a": [["r", "x"], ["sl", None, 2, None]], "sp": "mg"},
        {"k": "call", "out": "s1", "fn": "sum", "a": [["r", "x"]], "sp": "mg"},
        {"k": "backward", "tgt": "s1", "seed": None},
        {"k": "setitem", "tgt": "x", "index": ["e"], "value": 5.0},
        {"k": "call", "out": "m", "fn": "multiply", "a": [["r", "x"], 3.0], "sp": "mg"},
        {"k": "call", "out": "s2", "fn": "sum", "a": [["r", "m"]], "sp": "mg"},
        {"k": "backward", "tgt": "s2", "seed": None}]}]

"""C05 — gradients flow correctly through in-place updates and views (O-fd with the owner-injection rule)."""
import random
import numpy as np

from mgverif.hooks import REG
from mgverif.prog import Interp
from mgverif.oracle import Shadow, FD
from mgverif.gradcheck import check_grads
from mgverif import mgrun
from mgverif.gen.inplace import gen_history, add_readout, grow, epoch_boundary

PID = "C05"
LEVEL = "exploration"
RULE = ("seeded random histories over non-constant float view families (base = leaf or op output): view creation, reads through views "
        "before and after each mutation, in-place updates (set-item basic/advanced/boolean/repeated indices with scalar/array/tensor/"
        "overlapping/computed values, augmented assignment, ufunc out= with where= masks, .shape assignment), then a weighted read-out L "
        "of several members/consumers and L.backward(). Every float non-constant tensor alive at the end (leaves, value tensors, family "
        "members, consumers) is judged against longdouble finite differences of the NumPy program: the perturbation is injected into "
        "the owner's memory at the elements the tensor covers, right after the family's last in-place statement. Non-trivial: >=1 in-place "
        "statement upstream of L and >=3 judged directions; distinct = structure hash. Every third history continues past the backward for "
        "one or two further graph epochs: from each memory family one tensor of the cleared graph survives (its gradient nulled or "
        "left stale), the others are hidden or deleted; new views of the survivors (former views included), in-place writes through them "
        "and reads follow, then a new read-out and backward(); values of the tensors the epoch uses are compared with NumPy (survivor = "
        "its own memory) and their gradients with finite differences injected after max(epoch boundary, last in-place statement). Histories also "
        "contain in-place statements NumPy rejects (wrong shape, IndexError), which the user catches and which the reference program skips, "
        "and where= masks given as the Python scalars True/False. Every sixteenth case is a *pole* program: an in-place write (basic / integer / "
        "repeated / boolean set-item or masked out=, through the tensor or a view of it) of the value at which the function applied next "
        "(sqrt, cbrt, arcsin, arccos, **0.5) has an infinite derivative; closed-form oracle: the overwritten elements and superseded value "
        "entries get exactly 0 (not nan), all other elements the analytic derivative.")
ASSUMPTIONS = ["NumPy's in-place semantics on the same statements define 'the equivalent purely functional program'",
               "constant tensors are never in-place targets here (their flag semantics are C10's)", "kinks / ill-conditioned directions skipped and counted",
               "across an epoch boundary MyGrad severs view relations (in-place updates act on a copy of the target's memory); tensors of an earlier "
               "epoch that the new epoch does not use are not observed, and a non-nulled survivor on which the new read-out does not depend may keep its stale gradient"]
TIERS = {"quick": {"cases": 8000, "nstmts": (3, 10), "bad_w": 0.3, "pole": True}, "thorough": {"cases": 150000, "nstmts": (4, 24), "bad_w": 0.3, "pole": True}}
FLOORS = {"quick": {"fd_ok": 15000, "inplace_stmts": 3000, "epoch2_fd_ok": 4000, "epoch2_inplace_stmts": 800, "pole_cases": 400},
          "thorough": {"fd_ok": 75000, "inplace_stmts": 15000, "epoch2_fd_ok": 20000, "epoch2_inplace_stmts": 4000, "pole_cases": 8000}}
SKIP_BUDGET = {"fd": ("fd_skipped", "fd_dirs", 0.15)}
TAU = 1e-8


POLE_FNS = {   # function -> (value written, at which the function is finite but its derivative is not; derivative elsewhere; operand range)
    "sqrt": (0.0, lambda b: 0.5 / np.sqrt(b), (1.0, 5.0)), "cbrt": (0.0, lambda b: 1.0 / (3.0 * np.cbrt(b) ** 2), (1.0, 5.0)),
    "arcsin": (1.0, lambda b: 1.0 / np.sqrt(1.0 - b * b), (0.1, 0.8)), "arccos": (1.0, lambda b: -1.0 / np.sqrt(1.0 - b * b), (0.1, 0.8)),
    "power_half": (0.0, lambda b: 0.5 / np.sqrt(b), (1.0, 5.0)),
}


def gen_pole(rng):
    """An in-place update writes, into part of a tensor or of a view of it, a value at which the function applied NEXT has an infinite derivative
    (sqrt at the 0 just written).  The overwritten old contents are out of the computation: their gradient is exactly 0 - not nan - and every
    other element's is the closed-form derivative."""
    shape = rng.choice([[4], [5], [6], [2, 3], [3, 2], [2, 2]])
    fn = rng.choice(sorted(POLE_FNS))
    lo, hi = POLE_FNS[fn][2]
    n = int(np.prod(shape))
    return {"kind": "pole", "shape": shape, "fn": fn, "x": [round(rng.uniform(lo, hi), 4) for _ in range(n)], "w": [round(rng.uniform(0.5, 2.0), 3) for _ in range(n)],
            "c": rng.choice([1.0, 1.0, 0.5]) if fn in ("arcsin", "arccos") else rng.choice([1.0, 1.5]),
            "view": rng.choice(["none", "none", "slice", "reshape", "T", "rev", "slice_of_slice"]),
            "write": rng.choice(["setitem_basic", "setitem_basic", "setitem_int", "setitem_int_repeat", "setitem_bool", "masked_out", "masked_out", "aug_zero"]),
            "carrier": rng.choice(["py", "py", "arr", "tconst", "tvar"]), "kseed": rng.randrange(1 << 30)}


def run_pole(case):
    import mygrad as mg
    REG.reset()
    rng = random.Random(case["kseed"])
    fn, shape = case["fn"], tuple(case["shape"])
    pole, fprime, _ = POLE_FNS[fn]
    cnt, viol = {"pole_cases": 1}, []
    x0 = mg.tensor(np.array(case["x"]).reshape(shape))
    w = np.array(case["w"]).reshape(shape)
    b = x0 * case["c"]
    ids = np.arange(b.size).reshape(shape)
    views = {"none": lambda a: a, "slice": lambda a: a[1:], "reshape": lambda a: a.reshape(-1), "T": lambda a: a.T, "rev": lambda a: a[::-1],
             "slice_of_slice": lambda a: a[1:][:2]}
    vf = views[case["view"]]
    tgt, tids = vf(b), vf(ids)
    if tids.size == 0:
        return {"viol": [], "counters": {}, "skip": "empty target"}
    k = tids.shape[0]
    value_t = None
    def carrier(shape_):
        nonlocal value_t
        c = case["carrier"]
        if c == "py":
            return pole
        a = np.full(shape_, pole)
        if c == "arr":
            return a
        value_t = mg.tensor(a, constant=(c == "tconst"))
        return value_t
    wr = case["write"]
    redundant = None
    with np.errstate(all="ignore"):
        if wr == "setitem_basic":
            j = rng.randrange(k)
            tgt[j] = carrier(np.shape(tids[j]))
            written = np.ravel(tids[j])
        elif wr in ("setitem_int", "setitem_int_repeat"):
            idx = [rng.randrange(k) for _ in range(rng.randint(1, 3))]
            if wr == "setitem_int_repeat":
                idx = idx + [idx[0]]
            ia = np.array(idx)
            tgt[ia] = carrier(tids[ia].shape)
            written = np.ravel(tids[ia])
            redundant = ia
        elif wr == "setitem_bool":
            m = np.array([rng.random() < 0.5 for _ in range(tids.size)]).reshape(tids.shape)
            if not m.any():
                m.flat[0] = True
            tgt[m] = carrier(tids[m].shape)
            written = np.ravel(tids[m])
        elif wr == "masked_out":
            m = np.array([rng.random() < 0.5 for _ in range(tids.size)]).reshape(tids.shape)
            if not m.any():
                m.flat[0] = True
            if m.all() and m.size > 1:
                m.flat[-1] = False
            src = carrier(tids.shape)
            mg.add(src if not isinstance(src, float) else np.full(tids.shape, pole), 0.0, where=m, out=tgt)
            written = np.ravel(tids[m])
        else:   # aug_zero: v -= v is not "overwriting" (it depends on the old contents): instead x[j] = pole via a 1-element slice
            j = rng.randrange(k)
            tgt[j:j + 1] = carrier(np.shape(tids[j:j + 1]))
            written = np.ravel(tids[j:j + 1])
        f = {"sqrt": mg.sqrt, "cbrt": mg.cbrt, "arcsin": mg.arcsin, "arccos": mg.arccos, "power_half": lambda t: t ** np.array(0.5)}[fn]
        y = f(b)
        L = (y * w).sum()
        L.backward()
    g = x0.grad
    cnt["pole_written_elements"] = int(len(set(written.tolist())))
    if g is None:
        viol.append({"monitor": "pole", "mech": "pole:no-gradient", "msg": f"{fn} after {wr} through view '{case['view']}': the leaf has no gradient"})
    else:
        gf = g.ravel()
        wset = sorted(set(written.tolist()))
        keep = [i for i in range(gf.size) if i not in wset]
        if np.any(np.isnan(gf[wset])) or np.any(gf[wset] != 0):
            viol.append({"monitor": "pole", "mech": "pole:overwritten-elements-gradient-not-zero",
                         "msg": f"{fn} after {wr} ({case['carrier']}) through view '{case['view']}': the overwritten old contents get gradient {gf[wset]} instead of exactly 0"})
        want = (case["c"] * w * fprime(np.array(case["x"]).reshape(shape) * case["c"])).ravel()
        if keep and not np.allclose(gf[keep], want[keep], rtol=1e-10, atol=0):
            viol.append({"monitor": "pole", "mech": "pole:untouched-elements-gradient", "msg": f"{fn} after {wr}: gradient of untouched elements {gf[keep]} differs from the closed form {want[keep]}"})
    if value_t is not None and not value_t.constant and redundant is not None and len(redundant) > len(set(redundant.tolist())) and value_t.grad is not None:
        # a value entry whose write was superseded by a later entry of the same index took no effect: its gradient is exactly 0
        last = {}
        for pos, i_ in enumerate(redundant.tolist()):
            last[i_] = pos
        dead = [pos for pos, i_ in enumerate(redundant.tolist()) if last[i_] != pos]
        gv = value_t.grad.reshape(len(redundant), -1)
        cnt["pole_superseded_entries"] = len(dead)
        if np.any(np.isnan(gv[dead])) or np.any(gv[dead] != 0):
            viol.append({"monitor": "pole", "mech": "pole:superseded-value-gradient-not-zero", "msg": f"value entries {dead} of a repeated-index set-item took no effect but get gradient {gv[dead].ravel()}"})
    return {"viol": viol[:3], "counters": cnt, "sets": {"pole_kinds": [f"{fn}:{wr}:{case['view']}:{case['carrier']}"]},
            "sig": f"pole:{fn}:{wr}:{case['view']}:{case['carrier']}:{shape}", "nontrivial": True}


def gen_case(rng, cfg, idx):
    if idx % 16 == 9 and cfg.get("pole"):      # (other checks borrow this generator for their histories: they pass no "pole")
        return gen_pole(rng)
    for _ in range(10):
        b, base, n_inplace = gen_history(rng, nstmts=cfg["nstmts"], int_prob=0.0, nonconst_only=True, setshape_w=0.3,
                                         const_kw_prob=0.45 if idx % 5 == 4 else 0.0, cv_as_targets=True, layer_reads=True,
                                         bad_w=cfg.get("bad_w", 0.0))
        L = add_readout(b, rng)
        if L is None:
            continue
        seed = None if rng.random() < 0.7 else round(rng.uniform(0.5, 2.0), 3)
        b.prog.append({"k": "backward", "tgt": L, "seed": seed})
        case = {"prog": b.prog, "L": L, "cseed": rng.randrange(1 << 30), "bws": [len(b.prog) - 1]}
        if cfg.get("two_epoch", True) and (idx % 3 == 2 or (cfg.get("two_epoch") == "random" and rng.random() < 0.4)):
            # a second graph epoch: tensors of the graph that backward() just cleared are used again (new views of former views,
            # in-place writes through them, reads) and a second read-out is back-propagated
            for _ in range(rng.choice([1, 1, 2])):
                r = epoch_boundary(b, rng, getattr(b, "last_readout", ()))
                if r is None:
                    break
                survivors, nulled = r
                lo, hi = cfg["nstmts"]
                n2 = grow(b, rng, survivors[0], rng.randint(max(2, lo // 2), max(3, hi // 2)), setshape_w=0.3, nonconst_only=True)
                L2 = add_readout(b, rng)
                if L2 is None:
                    break
                b.prog.append({"k": "backward", "tgt": L2, "seed": None if rng.random() < 0.7 else round(rng.uniform(0.5, 2.0), 3)})
                case["bws"].append(len(b.prog) - 1)
            case["prog"] = b.prog
        return case
    return None


def run_case(case):
    if case.get("kind") == "pole":
        return run_pole(case)
    prog = case["prog"]
    bws = case.get("bws") or [len(prog) - 1]
    bad_stmts = tuple(i for i, st in enumerate(prog) if st.get("expect_raise"))    # rejected by NumPy too: not part of the reference computation
    rng = random.Random(case.get("cseed", 0))
    REG.reset()
    it = Interp("mg")
    sh = Shadow(prog)
    cnt, viol, sets = {}, [], {}
    start = 0
    const_view_writes = []
    viol_ep, last_grads, last_names, last_M = [], {}, [], 0.0
    for ep, bw in enumerate(bws):
        try:
            for i in range(start, bw + 1):
                st_ = prog[i]
                if st_["k"] in ("setitem", "aug", "uout") and mgrun.is_tensor(it.env.get(st_["tgt"])):
                    tg = it.env[st_["tgt"]]
                    if tg.constant and tg.base is not None and not tg.base.constant:
                        const_view_writes.append(i)
                if st_.get("expect_raise"):
                    # a statement NumPy itself rejects: the user catches the error and carries on (whether MyGrad rejects it too is C04's question)
                    try:
                        it.exec(i, st_)
                    except Exception:
                        cnt["rejected_stmts"] = cnt.get("rejected_stmts", 0) + 1
                        continue
                    return {"viol": [], "counters": {"cross_accepts_what_numpy_rejects": 1}, "skip": "accepted a statement NumPy rejects (judged by C04)"}
                it.exec(i, st_)
        except Exception as e:
            return {"viol": [{"monitor": "mg-raised", "mech": f"mg-raises:{type(e).__name__}", "msg": f"stmt {i} (epoch {ep}): {type(e).__name__}: {e}"}]}
        used = set()
        for st in prog[start:bw + 1]:
            used.update(mgrun.stmt_refs(st))
            if "out" in st:
                used.add(st["out"])
        # (in later epochs only tensors the epoch uses are observed: what a view left over from an earlier epoch reports is outside the model)
        grads = mgrun.snapshot_grads({n: v for n, v in it.env.items() if ep == 0 or n in used})
        M = REG.max_abs_grad
        while sh.pos <= bw:
            sh.step()
        if sh.raised and any(not prog[j].get("expect_raise") for j in (sh.raised if isinstance(sh.raised, dict) else [0])):
            return {"viol": [{"monitor": "harness", "mech": "shadow-raised", "msg": repr(sh.raised)}]}
        for n, v in it.env.items():
            # (tensors of an earlier epoch that the current one does not use are not compared: whether they still see writes made
            # through a former relative is exactly what the model leaves open)
            if mgrun.is_tensor(v) and n in sh.it.env and (ep == 0 or n in used) and not mgrun.values_close(v.data, sh.it.env[n], 1e-9, 1e-12):
                if ep == 0:
                    return {"viol": [], "counters": {"cross_forward_mismatch": 1}, "skip": "forward-mismatch (judged by C04)"}
                return {"viol": [{"monitor": "O-np", "mech": "epoch2-forward-mismatch",
                                 "msg": f"after the backward at stmt {bw} (epoch {ep}) tensor {n} holds values that differ from the NumPy program's"}]}
        names = [n for n, v in it.env.items() if mgrun.is_tensor(v) and not v.constant and v.dtype.kind == "f" and n in sh.owner
                 and not n.startswith(("m", "s", "L")) and (ep == 0 or n in used)
                 # a non-constant view of memory owned by a CONSTANT tensor: reads made through the constant owner transmit nothing
                 # (C10), which the owner-injection rule cannot tell apart - not judged here
                 and not (mgrun.is_tensor(it.env.get(sh.owner[n])) and it.env[sh.owner[n]].constant)]
        stale_ok = ()
        if ep > 0:
            # survivors whose gradient was not nulled at the boundary (and views made of them) keep that stale gradient unless the new
            # epoch's backward() reaches them
            sev = [st for st in prog[start:bw + 1] if st["k"] == "sever"]
            nulled = {st["tgt"] for st in prog[start:bw + 1] if st["k"] == "nullgrad"}
            keepers = {n for st in sev for n in st["names"]} - nulled
            stale_ok = {n for n in names if sh.owner.get(n) in keepers}
            cnt["epoch2_judged_tensors"] = cnt.get("epoch2_judged_tensors", 0) + len(names)
            cnt["epoch2_inplace_stmts"] = cnt.get("epoch2_inplace_stmts", 0) + sum(1 for st in prog[start:bw + 1] if st["k"] in ("setitem", "aug", "uout"))
        last_grads, last_names, last_M = grads, names, M
        v1, c1 = check_grads(prog, bad_stmts, sh, grads, bw, names, rng, tau=TAU, M=M, full_upto=3, nrand=1, stale_ok=stale_ok)
        if v1:
            viol_ep = [bw]
        for k, x in c1.items():
            cnt[k] = cnt.get(k, 0) + x
        if ep > 0:
            cnt["epoch2_fd_ok"] = cnt.get("epoch2_fd_ok", 0) + c1.get("fd_ok", 0)
            for x in v1:
                x["mech"] = "epoch2:" + x.get("mech", x["msg"][:20])
        viol += v1
        if viol:
            break
        start = bw + 1
    if const_view_writes:
        cnt["const_view_writes"] = len(const_view_writes)
    if viol and const_view_writes and all(v.get("monitor") == "O-fd" for v in viol) and not case.get("_probe"):
        # mechanism probe for the known finding: the mis-judged gradients are exactly those of the program in which the PREVIOUS CONTENTS
        # of the region each constant-view write covers are constants (finite differences with that region reset to its unperturbed values
        # right before the write): re-judge every tensor against that reference
        from mgverif.oracle import FD as _FD
        try:
            fdb = _FD(prog, bad_stmts, blocks=set(const_view_writes))
            v2, _ = check_grads(prog, bad_stmts, sh, last_grads, bws[len(bws) - 1] if not viol_ep else viol_ep[0], last_names, random.Random(case.get("cseed", 0)),
                                tau=TAU, M=last_M, full_upto=3, nrand=1, fd=fdb)
            if not v2:
                for v in viol:
                    v["const_view_write"] = True
        except Exception:
            pass
    cnt["fd_skipped"] = cnt.get("fd_kink", 0) + cnt.get("fd_illcond", 0)
    kinds = [st["k"] + ":" + str(st.get("fn") or st.get("op") or "") for st in prog if st["k"] in ("setitem", "aug", "uout", "setshape")]
    cnt["inplace_stmts"] = sum(1 for st in prog if st["k"] in ("setitem", "aug", "uout"))
    cnt["placeholders"] = len(REG.placeholders)
    cnt["epochs"] = len(bws)
    sets["inplace_kinds"] = sorted(set(kinds))
    sets["opclasses"] = sorted(REG.opclasses)
    return {"viol": viol[:4], "counters": cnt, "sets": sets, "sig": mgrun.struct_sig(prog),
            "nontrivial": cnt["inplace_stmts"] >= 1 and cnt.get("fd_dirs", 0) >= 3}


def classify(v, case):
    m = v.get("mech") or v["monitor"]
    if v.get("const_view_write"):
        return "write-through-constant-view-drops-untouched-gradient"
    return m


def witness_cases():
    A = lambda v: ["a", "float64", [len(v)], v]
    return [{"L": "L", "cseed": 1, "bws": [9], "prog": [
        {"k": "leaf", "out": "x0", "kind": "tensor", "dtype": "float64", "shape": [6], "data": [1.0, 2.0, 3.0, 4.0, 5.0, 6.0], "constant": None, "layout": "C"},
        {"k": "leaf", "out": "y", "kind": "tensor", "dtype": "float64", "shape": [3], "data": [10.0, 20.0, 30.0], "constant": None, "layout": "C"},
        {"k": "call", "out": "b", "fn": "multiply", "a": [["r", "x0"], 1.5], "sp": "mg"},
        {"k": "call", "out": "cv", "fn": "reshape", "a": [["r", "b"], ["t", [2, 3]]], "kw": {"constant": True}, "sp": "mg"},
        {"k": "call", "out": "v2", "fn": "multiply", "a": [["r", "y"], 2.0], "sp": "mg"},
        {"k": "setitem", "tgt": "cv", "index": 1, "value": ["r", "v2"]},
        {"k": "call", "out": "m", "fn": "multiply", "a": [["r", "b"], A([1.0, 2.0, 3.0, 4.0, 5.0, 6.0])], "sp": "mg"},
        {"k": "call", "out": "s", "fn": "sum", "a": [["r", "m"]], "sp": "mg"},
        {"k": "call", "out": "L", "fn": "positive", "a": [["r", "s"]], "sp": "mg"},
        {"k": "backward", "tgt": "L", "seed": None}]}]

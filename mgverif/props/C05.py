"""C05 — gradients flow correctly through in-place updates and views (O-fd with the owner-injection rule)."""
import random
import numpy as np

from mgverif.hooks import REG
from mgverif.prog import Interp
from mgverif.oracle import Shadow, FD
from mgverif.gradcheck import check_grads
from mgverif import mgrun
from mgverif.gen.inplace import gen_history, add_readout

PID = "C05"
LEVEL = "exploration"
RULE = ("seeded random histories over non-constant float view families (base = leaf or op output): view creation, reads through views "
        "before and after each mutation, in-place updates (set-item basic/advanced/boolean/repeated indices with scalar/array/tensor/"
        "overlapping/computed values, augmented assignment, ufunc out= with where= masks, .shape assignment), then a weighted read-out L "
        "of several members/consumers and L.backward(). Every float non-constant tensor alive at the end (leaves, value tensors, family "
        "members, consumers) is judged against longdouble finite differences of the NumPy program: the perturbation is injected into "
        "the owner's memory at the elements the tensor covers, right after the family's last in-place statement. Non-trivial: >=1 in-place "
        "statement upstream of L and >=3 judged directions; distinct = structure hash.")
ASSUMPTIONS = ["NumPy's in-place semantics on the same statements define 'the equivalent purely functional program'",
               "constant tensors are never in-place targets here (their flag semantics are C10's)", "kinks / ill-conditioned directions skipped and counted"]
TIERS = {"quick": {"cases": 8000, "nstmts": (3, 10)}, "thorough": {"cases": 150000, "nstmts": (4, 24)}}
FLOORS = {"quick": {"fd_ok": 15000, "inplace_stmts": 3000},
          "thorough": {"fd_ok": 75000, "inplace_stmts": 15000}}
SKIP_BUDGET = {"fd": ("fd_skipped", "fd_dirs", 0.15)}
TAU = 1e-8


def gen_case(rng, cfg, idx):
    for _ in range(10):
        b, base, n_inplace = gen_history(rng, nstmts=cfg["nstmts"], int_prob=0.0, nonconst_only=True, setshape_w=0.3)
        L = add_readout(b, rng)
        if L is None:
            continue
        seed = None if rng.random() < 0.7 else round(rng.uniform(0.5, 2.0), 3)
        b.prog.append({"k": "backward", "tgt": L, "seed": seed})
        return {"prog": b.prog, "L": L, "cseed": rng.randrange(1 << 30)}
    return None


def run_case(case):
    prog = case["prog"]
    bw = len(prog) - 1
    rng = random.Random(case.get("cseed", 0))
    REG.reset()
    it = Interp("mg")
    try:
        it.run(prog, catch=False)
    except Exception as e:
        return {"viol": [{"monitor": "mg-raised", "mech": f"mg-raises:{type(e).__name__}", "msg": f"{type(e).__name__}: {e}"}]}
    grads = mgrun.snapshot_grads(it.env)
    M = REG.max_abs_grad
    sh = Shadow(prog).run_all()
    if sh.raised:
        return {"viol": [{"monitor": "harness", "mech": "shadow-raised", "msg": repr(sh.raised)}]}
    cnt, viol, sets = {}, [], {}
    for n, v in it.env.items():
        if mgrun.is_tensor(v) and n in sh.it.env and not mgrun.values_close(v.data, sh.it.env[n], 1e-9, 1e-12):
            return {"viol": [], "counters": {"cross_forward_mismatch": 1}, "skip": "forward-mismatch (judged by C04)"}
    names = [n for n, v in it.env.items() if mgrun.is_tensor(v) and not v.constant and v.dtype.kind == "f" and n in sh.owner
             and not n.startswith(("m", "s", "L"))]
    viol, cnt = check_grads(prog, (), sh, grads, bw, names, rng, tau=TAU, M=M, full_upto=3, nrand=1)
    cnt["fd_skipped"] = cnt.get("fd_kink", 0) + cnt.get("fd_illcond", 0)
    kinds = [st["k"] + ":" + str(st.get("fn") or st.get("op") or "") for st in prog if st["k"] in ("setitem", "aug", "uout", "setshape")]
    cnt["inplace_stmts"] = sum(1 for st in prog if st["k"] in ("setitem", "aug", "uout"))
    cnt["placeholders"] = len(REG.placeholders)
    sets["inplace_kinds"] = sorted(set(kinds))
    sets["opclasses"] = sorted(REG.opclasses)
    return {"viol": viol[:4], "counters": cnt, "sets": sets, "sig": mgrun.struct_sig(prog),
            "nontrivial": cnt["inplace_stmts"] >= 1 and cnt.get("fd_dirs", 0) >= 3}

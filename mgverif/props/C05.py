"""C05 — gradients flow correctly through in-place updates and views (O-fd with the owner-injection rule)."""
import random
import numpy as np

from mgverif.hooks import REG
from mgverif.prog import Interp
from mgverif.oracle import Shadow, FD
from mgverif.gradcheck import check_grads
from mgverif import mgrun
from mgverif.gen.inplace import gen_history, add_readout, grow, epoch_boundary

PID = "C05"
LEVEL = "exploration"
RULE = ("seeded random histories over non-constant float view families (base = leaf or op output): view creation, reads through views "
        "before and after each mutation, in-place updates (set-item basic/advanced/boolean/repeated indices with scalar/array/tensor/"
        "overlapping/computed values, augmented assignment, ufunc out= with where= masks, .shape assignment), then a weighted read-out L "
        "of several members/consumers and L.backward(). Every float non-constant tensor alive at the end (leaves, value tensors, family "
        "members, consumers) is judged against longdouble finite differences of the NumPy program: the perturbation is injected into "
        "the owner's memory at the elements the tensor covers, right after the family's last in-place statement. Non-trivial: >=1 in-place "
        "statement upstream of L and >=3 judged directions; distinct = structure hash. Every third history continues past the backward for "
        "one or two further graph epochs: from each memory family one tensor of the cleared graph survives (its gradient nulled or "
        "left stale), the others are hidden or deleted; new views of the survivors (former views included), in-place writes through them "
        "and reads follow, then a new read-out and backward(); values of the tensors the epoch uses are compared with NumPy (survivor = "
        "its own memory) and their gradients with finite differences injected after max(epoch boundary, last in-place statement).")
ASSUMPTIONS = ["NumPy's in-place semantics on the same statements define 'the equivalent purely functional program'",
               "constant tensors are never in-place targets here (their flag semantics are C10's)", "kinks / ill-conditioned directions skipped and counted",
               "across an epoch boundary MyGrad severs view relations (in-place updates act on a copy of the target's memory); tensors of an earlier "
               "epoch that the new epoch does not use are not observed, and a non-nulled survivor on which the new read-out does not depend may keep its stale gradient"]
TIERS = {"quick": {"cases": 8000, "nstmts": (3, 10), "bad_w": 0.3}, "thorough": {"cases": 150000, "nstmts": (4, 24), "bad_w": 0.3}}
FLOORS = {"quick": {"fd_ok": 15000, "inplace_stmts": 3000, "epoch2_fd_ok": 4000, "epoch2_inplace_stmts": 800},
          "thorough": {"fd_ok": 75000, "inplace_stmts": 15000, "epoch2_fd_ok": 20000, "epoch2_inplace_stmts": 4000}}
SKIP_BUDGET = {"fd": ("fd_skipped", "fd_dirs", 0.15)}
TAU = 1e-8


def gen_case(rng, cfg, idx):
    for _ in range(10):
        b, base, n_inplace = gen_history(rng, nstmts=cfg["nstmts"], int_prob=0.0, nonconst_only=True, setshape_w=0.3,
                                         const_kw_prob=0.45 if idx % 5 == 4 else 0.0, cv_as_targets=True, layer_reads=True,
                                         bad_w=cfg.get("bad_w", 0.0))
        L = add_readout(b, rng)
        if L is None:
            continue
        seed = None if rng.random() < 0.7 else round(rng.uniform(0.5, 2.0), 3)
        b.prog.append({"k": "backward", "tgt": L, "seed": seed})
        case = {"prog": b.prog, "L": L, "cseed": rng.randrange(1 << 30), "bws": [len(b.prog) - 1]}
        if cfg.get("two_epoch", True) and (idx % 3 == 2 or (cfg.get("two_epoch") == "random" and rng.random() < 0.4)):
            # a second graph epoch: tensors of the graph that backward() just cleared are used again (new views of former views,
            # in-place writes through them, reads) and a second read-out is back-propagated
            for _ in range(rng.choice([1, 1, 2])):
                r = epoch_boundary(b, rng, getattr(b, "last_readout", ()))
                if r is None:
                    break
                survivors, nulled = r
                lo, hi = cfg["nstmts"]
                n2 = grow(b, rng, survivors[0], rng.randint(max(2, lo // 2), max(3, hi // 2)), setshape_w=0.3, nonconst_only=True)
                L2 = add_readout(b, rng)
                if L2 is None:
                    break
                b.prog.append({"k": "backward", "tgt": L2, "seed": None if rng.random() < 0.7 else round(rng.uniform(0.5, 2.0), 3)})
                case["bws"].append(len(b.prog) - 1)
            case["prog"] = b.prog
        return case
    return None


def run_case(case):
    prog = case["prog"]
    bws = case.get("bws") or [len(prog) - 1]
    bad_stmts = tuple(i for i, st in enumerate(prog) if st.get("expect_raise"))    # rejected by NumPy too: not part of the reference computation
    rng = random.Random(case.get("cseed", 0))
    REG.reset()
    it = Interp("mg")
    sh = Shadow(prog)
    cnt, viol, sets = {}, [], {}
    start = 0
    const_view_writes = []
    viol_ep, last_grads, last_names, last_M = [], {}, [], 0.0
    for ep, bw in enumerate(bws):
        try:
            for i in range(start, bw + 1):
                st_ = prog[i]
                if st_["k"] in ("setitem", "aug", "uout") and mgrun.is_tensor(it.env.get(st_["tgt"])):
                    tg = it.env[st_["tgt"]]
                    if tg.constant and tg.base is not None and not tg.base.constant:
                        const_view_writes.append(i)
                if st_.get("expect_raise"):
                    # a statement NumPy itself rejects: the user catches the error and carries on (whether MyGrad rejects it too is C04's question)
                    try:
                        it.exec(i, st_)
                    except Exception:
                        cnt["rejected_stmts"] = cnt.get("rejected_stmts", 0) + 1
                        continue
                    return {"viol": [], "counters": {"cross_accepts_what_numpy_rejects": 1}, "skip": "accepted a statement NumPy rejects (judged by C04)"}
                it.exec(i, st_)
        except Exception as e:
            return {"viol": [{"monitor": "mg-raised", "mech": f"mg-raises:{type(e).__name__}", "msg": f"stmt {i} (epoch {ep}): {type(e).__name__}: {e}"}]}
        used = set()
        for st in prog[start:bw + 1]:
            used.update(mgrun.stmt_refs(st))
            if "out" in st:
                used.add(st["out"])
        # (in later epochs only tensors the epoch uses are observed: what a view left over from an earlier epoch reports is outside the model)
        grads = mgrun.snapshot_grads({n: v for n, v in it.env.items() if ep == 0 or n in used})
        M = REG.max_abs_grad
        while sh.pos <= bw:
            sh.step()
        if sh.raised and any(not prog[j].get("expect_raise") for j in (sh.raised if isinstance(sh.raised, dict) else [0])):
            return {"viol": [{"monitor": "harness", "mech": "shadow-raised", "msg": repr(sh.raised)}]}
        for n, v in it.env.items():
            # (tensors of an earlier epoch that the current one does not use are not compared: whether they still see writes made
            # through a former relative is exactly what the model leaves open)
            if mgrun.is_tensor(v) and n in sh.it.env and (ep == 0 or n in used) and not mgrun.values_close(v.data, sh.it.env[n], 1e-9, 1e-12):
                if ep == 0:
                    return {"viol": [], "counters": {"cross_forward_mismatch": 1}, "skip": "forward-mismatch (judged by C04)"}
                return {"viol": [{"monitor": "O-np", "mech": "epoch2-forward-mismatch",
                                 "msg": f"after the backward at stmt {bw} (epoch {ep}) tensor {n} holds values that differ from the NumPy program's"}]}
        names = [n for n, v in it.env.items() if mgrun.is_tensor(v) and not v.constant and v.dtype.kind == "f" and n in sh.owner
                 and not n.startswith(("m", "s", "L")) and (ep == 0 or n in used)
                 # a non-constant view of memory owned by a CONSTANT tensor: reads made through the constant owner transmit nothing
                 # (C10), which the owner-injection rule cannot tell apart - not judged here
                 and not (mgrun.is_tensor(it.env.get(sh.owner[n])) and it.env[sh.owner[n]].constant)]
        stale_ok = ()
        if ep > 0:
            # survivors whose gradient was not nulled at the boundary (and views made of them) keep that stale gradient unless the new
            # epoch's backward() reaches them
            sev = [st for st in prog[start:bw + 1] if st["k"] == "sever"]
            nulled = {st["tgt"] for st in prog[start:bw + 1] if st["k"] == "nullgrad"}
            keepers = {n for st in sev for n in st["names"]} - nulled
            stale_ok = {n for n in names if sh.owner.get(n) in keepers}
            cnt["epoch2_judged_tensors"] = cnt.get("epoch2_judged_tensors", 0) + len(names)
            cnt["epoch2_inplace_stmts"] = cnt.get("epoch2_inplace_stmts", 0) + sum(1 for st in prog[start:bw + 1] if st["k"] in ("setitem", "aug", "uout"))
        last_grads, last_names, last_M = grads, names, M
        v1, c1 = check_grads(prog, bad_stmts, sh, grads, bw, names, rng, tau=TAU, M=M, full_upto=3, nrand=1, stale_ok=stale_ok)
        if v1:
            viol_ep = [bw]
        for k, x in c1.items():
            cnt[k] = cnt.get(k, 0) + x
        if ep > 0:
            cnt["epoch2_fd_ok"] = cnt.get("epoch2_fd_ok", 0) + c1.get("fd_ok", 0)
            for x in v1:
                x["mech"] = "epoch2:" + x.get("mech", x["msg"][:20])
        viol += v1
        if viol:
            break
        start = bw + 1
    if const_view_writes:
        cnt["const_view_writes"] = len(const_view_writes)
    if viol and const_view_writes and all(v.get("monitor") == "O-fd" for v in viol) and not case.get("_probe"):
        # mechanism probe for the known finding: the mis-judged gradients are exactly those of the program in which the PREVIOUS CONTENTS
        # of the region each constant-view write covers are constants (finite differences with that region reset to its unperturbed values
        # right before the write): re-judge every tensor against that reference
        from mgverif.oracle import FD as _FD
        try:
            fdb = _FD(prog, bad_stmts, blocks=set(const_view_writes))
            v2, _ = check_grads(prog, bad_stmts, sh, last_grads, bws[len(bws) - 1] if not viol_ep else viol_ep[0], last_names, random.Random(case.get("cseed", 0)),
                                tau=TAU, M=last_M, full_upto=3, nrand=1, fd=fdb)
            if not v2:
                for v in viol:
                    v["const_view_write"] = True
        except Exception:
            pass
    cnt["fd_skipped"] = cnt.get("fd_kink", 0) + cnt.get("fd_illcond", 0)
    kinds = [st["k"] + ":" + str(st.get("fn") or st.get("op") or "") for st in prog if st["k"] in ("setitem", "aug", "uout", "setshape")]
    cnt["inplace_stmts"] = sum(1 for st in prog if st["k"] in ("setitem", "aug", "uout"))
    cnt["placeholders"] = len(REG.placeholders)
    cnt["epochs"] = len(bws)
    sets["inplace_kinds"] = sorted(set(kinds))
    sets["opclasses"] = sorted(REG.opclasses)
    return {"viol": viol[:4], "counters": cnt, "sets": sets, "sig": mgrun.struct_sig(prog),
            "nontrivial": cnt["inplace_stmts"] >= 1 and cnt.get("fd_dirs", 0) >= 3}


def classify(v, case):
    m = v.get("mech") or v["monitor"]
    if v.get("const_view_write"):
        return "write-through-constant-view-drops-untouched-gradient"
    return m


def witness_cases():
    A = lambda v: ["a", "float64", [len(v)], v]
    return [{"L": "L", "cseed": 1, "bws": [9], "prog": [
        {"k": "leaf", "out": "x0", "kind": "tensor", "dtype": "float64", "shape": [6], "data": [1.0, 2.0, 3.0, 4.0, 5.0, 6.0], "constant": None, "layout": "C"},
        {"k": "leaf", "out": "y", "kind": "tensor", "dtype": "float64", "shape": [3], "data": [10.0, 20.0, 30.0], "constant": None, "layout": "C"},
        {"k": "call", "out": "b", "fn": "multiply", "a": [["r", "x0"], 1.5], "sp": "mg"},
        {"k": "call", "out": "cv", "fn": "reshape", "a": [["r", "b"], ["t", [2, 3]]], "kw": {"constant": True}, "sp": "mg"},
        {"k": "call", "out": "v2", "fn": "multiply", "a": [["r", "y"], 2.0], "sp": "mg"},
        {"k": "setitem", "tgt": "cv", "index": 1, "value": ["r", "v2"]},
        {"k": "call", "out": "m", "fn": "multiply", "a": [["r", "b"], A([1.0, 2.0, 3.0, 4.0, 5.0, 6.0])], "sp": "mg"},
        {"k": "call", "out": "s", "fn": "sum", "a": [["r", "m"]], "sp": "mg"},
        {"k": "call", "out": "L", "fn": "positive", "a": [["r", "s"]], "sp": "mg"},
        {"k": "backward", "tgt": "L", "seed": None}]}]

"""C14 — seeding backward and the shape/dtype of every stored gradient."""
import copy
import random
import numpy as np

from mgverif.hooks import REG
from mgverif.prog import Interp, enc_arr
from mgverif import mgrun
from mgverif.gen.dag import gen_dag
from mgverif.gen import build as B
from mgverif.props.C02 import gradinv, classify_layers

PID = "C14"
LEVEL = "exploration"
RULE = ("seeded random DAG programs (float64 mostly, float32/float16 in a fraction; terminal shapes of ndim 0-3) executed in paired forms: "
        "L.backward() vs L.sum().backward(); L.backward(g) vs (L*g).sum().backward() for g = Python scalar / 0-d array / same-shape array of the "
        "same or another float dtype / every kind of broadcastable shape / list / tensor; gradients of all leaves and intermediates must agree "
        "to 64 eps between the two forms. Rejection: g that does not broadcast to L's shape (wrong size, or mutually broadcasting to a LARGER "
        "shape) must raise and leave every gradient None. M-gradinv after every backward over ALL live tensors the run created (named or not): "
        "a non-None .grad is an ndarray of exactly the tensor's shape and dtype; constants have none. Non-trivial: >=2 gradients compared; "
        "distinct = structure hash + seed kind.")
ASSUMPTIONS = ["both seeding forms perform the same floating-point operations up to summation order: compared at 64 eps of the dtype, scaled by the largest gradient seen"]
TIERS = {"quick": {"cases": 8000, "nodes": (2, 9)}, "thorough": {"cases": 500000, "nodes": (3, 24)}}
FLOORS = {"quick": {"identity_compared": 15000, "gradinv_checks": 50000, "rejections": 600},
          "thorough": {"identity_compared": 75000, "gradinv_checks": 250000, "rejections": 3000}}
SEEDKINDS = ["none", "pyscalar", "0d", "full", "full_f32", "bcast", "list", "tensor", "bad_size", "bad_mutual"]


def gen_case(rng, cfg, idx):
    r = rng.random()
    dtype = "float64" if r < 0.8 else ("float32" if r < 0.95 else "float16")
    for _ in range(20):
        if idx % 32 == 16:
            # the gru layer (numba JIT: these indices all land on one shard), incl. mixed-precision parameters
            from mgverif.props import C02
            c = C02.gen_single(rng, "gru")
            dtype = "float64"
        else:
            c = gen_dag(rng, nodes=cfg["nodes"], seed_kinds=False, dtype=dtype, node_gens=B.NODE_GENS_WITH_LAYERS if dtype == "float64" else None)
        if c is None:
            continue
        prog = c["prog"][:-1]
        it = Interp("np")
        it.run(prog, catch=False)
        shp = np.shape(it.env[c["L"]])
        kind = SEEDKINDS[idx % len(SEEDKINDS)]
        if kind == "bad_mutual" and (len(shp) == 0 or 1 not in shp):
            kind = "bad_size"
        if kind == "none":
            g = None
        elif kind == "pyscalar":
            g = round(rng.uniform(0.5, 2.0), 3)
        elif kind == "0d":
            g = enc_arr(np.array(rng.uniform(0.5, 2.0)))
        elif kind == "full":
            g = enc_arr(B.rand_values(rng, shp, 0.3, 2.0).astype(dtype))
        elif kind == "full_f32":
            g = enc_arr(B.rand_values(rng, shp, 0.3, 2.0).astype("float32" if dtype != "float32" else "float64"))
        elif kind == "bcast":
            g = enc_arr(B.rand_values(rng, B.bcast_variants(rng, shp), 0.3, 2.0))
        elif kind == "list":
            g = ["l", B.rand_values(rng, shp, 0.3, 2.0).tolist()] if len(shp) == 1 else enc_arr(B.rand_values(rng, shp, 0.3, 2.0))
        elif kind == "tensor":
            g = ["r", "__g"]
            prog = prog + [{"k": "leaf", "out": "__g", "kind": "tensor", "dtype": "float64", "shape": list(shp),
                            "data": B.rand_values(rng, shp, 0.3, 2.0).ravel().tolist(), "constant": rng.choice([True, None]), "layout": "C"}]
        elif kind == "bad_size":
            bad = tuple(n + 1 for n in shp) if shp else (2, 3)
            g = enc_arr(np.ones(bad))
        else:  # bad_mutual: broadcasts WITH L to a larger shape
            bad = tuple(3 if n == 1 else n for n in shp)
            g = enc_arr(np.ones(bad))
        return {"prog": prog, "L": c["L"], "seed": g, "seedkind": kind, "dtype": dtype}
    return None


def run(prog):
    REG.reset()
    it = Interp("mg")
    with np.errstate(all="ignore"):
        it.run(prog, catch=False)
    return it


def all_live_tensors():
    return {f"#{i}": t for i, t in enumerate(r() for r in REG.tensors) if t is not None}


def run_case(case):
    prog, L, g, kind = case["prog"], case["L"], case["seed"], case["seedkind"]
    cnt, viol, sets = {"identity_compared": 0, "gradinv_checks": 0, "rejections": 0}, [], {"seedkinds": [kind], "dtypes": [case["dtype"]]}
    if kind.startswith("bad"):
        REG.reset()
        it = Interp("mg")
        it.run(prog, catch=False)
        try:
            it.exec(len(prog), {"k": "backward", "tgt": L, "seed": g})
            viol.append({"monitor": "rejection", "mech": f"bad-seed-accepted:{kind}", "msg": f"backward accepted a seed of shape {g[2]} for a tensor of shape {list(it.env[L].shape)}"})
        except Exception as e:
            cnt["rejections"] += 1
            sets["rejection_errors"] = [type(e).__name__]
        for n, t in all_live_tensors().items():
            if t.grad is not None:
                viol.append({"monitor": "rejection", "mech": "gradient-written-by-rejected-backward", "msg": f"a rejected backward(grad) left a gradient on a tensor of shape {t.shape}"})
                break
        if not viol:
            # the rejection is not the end of the graph: the plain L.backward() that follows gives what it gives without the rejected call
            try:
                with np.errstate(all="ignore"):
                    it.exec(len(prog) + 1, {"k": "backward", "tgt": L, "seed": None})
                after = mgrun.snapshot_grads(it.env)
                REG.reset()
                ref = Interp("mg")
                with np.errstate(all="ignore"):
                    ref.run(prog + [{"k": "backward", "tgt": L, "seed": None}], catch=False)
                want = mgrun.snapshot_grads(ref.env)
                cnt["retry_after_rejection"] = 1
                for n, w in want.items():
                    a = after.get(n)
                    if (a is None) != (w is None) or (w is not None and not np.array_equal(a, w, equal_nan=True)):
                        viol.append({"monitor": "rejection", "mech": "backward-after-rejected-seed-differs",
                                     "msg": f"after a rejected backward(grad), L.backward() gives {n}.grad = {None if a is None else a.ravel()[:3]}; without the rejected call {None if w is None else w.ravel()[:3]}"})
                        break
            except Exception as e:
                viol.append({"monitor": "rejection", "mech": f"backward-after-rejected-seed-raises:{type(e).__name__}", "msg": f"L.backward() after a rejected seed raised {type(e).__name__}: {e}"})
        return {"viol": viol, "counters": cnt, "sets": sets, "sig": mgrun.struct_sig(prog) + kind, "nontrivial": True}
    a_prog = prog + [{"k": "backward", "tgt": L, "seed": g}]
    if g is None:
        b_prog = prog + [{"k": "call", "out": "__S", "fn": "sum", "a": [["r", L]], "sp": "mg"}, {"k": "backward", "tgt": "__S", "seed": None}]
    else:
        b_prog = prog + [{"k": "call", "out": "__M", "fn": "multiply", "a": [["r", L], g], "sp": "mg"},
                         {"k": "call", "out": "__S", "fn": "sum", "a": [["r", "__M"]], "sp": "mg"}, {"k": "backward", "tgt": "__S", "seed": None}]
    ita = run(a_prog)
    gradinv(all_live_tensors(), cnt, viol)
    ga = mgrun.snapshot_grads(ita.env)
    itb = run(b_prog)
    gradinv(all_live_tensors(), cnt, viol)
    gb = mgrun.snapshot_grads(itb.env)
    ncomp = 0
    for n, x in ga.items():
        if n.startswith("__") or n == L:
            continue
        y = gb.get(n)
        cnt["identity_compared"] += 1
        if (x is None) != (y is None):
            viol.append({"monitor": "seeding-identity", "mech": f"presence:{kind}", "msg": f"{n}.grad presence differs between backward({kind}) and the explicit sum form"})
        elif x is not None:
            ncomp += 1
            eps = float(np.finfo(x.dtype).eps) if x.dtype.kind == "f" else 0.0
            S = max(1.0, float(np.max(np.abs(x))) if x.size else 1.0, REG.max_abs_grad)
            # the two forms may sum the same numbers in a different order (memory layout of the seed vs of a computed gradient)
            if x.dtype != y.dtype or x.shape != y.shape or not np.allclose(x, y, rtol=64 * eps, atol=64 * eps * S, equal_nan=True):
                viol.append({"monitor": "seeding-identity", "mech": f"value:{kind}", "msg": f"{n}.grad {x.ravel()[:3]} via backward({kind}) but {y.ravel()[:3]} via the explicit sum form"})
    sets["opclasses"] = sorted(REG.opclasses)
    return {"viol": viol[:4], "counters": cnt, "sets": sets, "sig": mgrun.struct_sig(prog) + kind, "nontrivial": ncomp >= 2}


def classify(v, case):
    return classify_layers(v, case) or v.get("mech") or v["monitor"]

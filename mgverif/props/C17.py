"""C17 — tensor construction and conversion: copying, aliasing and dtype rules."""
import itertools
import random
import numpy as np

from mgverif.hooks import REG

PID = "C17"
LEVEL = "exploration"
EXHAUSTIVE = False
RULE = ("(lattice, enumerated completely in both tiers) input kind {python float/int/bool, list, nested list, ndarray C / F / strided view / "
        "read-only / float32 / int64, tensor leaf, constant tensor, int tensor, tensor with a graph, tensor with a gradient, tensor view} x "
        "dtype {None, same, float32, float64, int64, bool, complex64, object, str, datetime64} x constant {None, True, False} x copy {default, "
        "True, False} x ndmin {0,1,3,-1,'x'} x function {tensor, Tensor, astensor, asarray} plus t.copy() / t.astype() on every tensor kind. "
        "Model: default copies (no shared memory with the input, later changes to the input are not seen); copy=False / astensor / asarray "
        "share memory exactly when np.asarray(input, dtype) does; astensor(t) and tensor(t, copy=False) ARE t (same object, creator and gradient "
        "intact) iff dtype and constant already match, otherwise a fresh graph-less tensor; Tensor(...) never returns its argument; dtype/shape "
        "as np.array(input, dtype, ndmin); integer/bool with constant=False raises; non-real dtypes raise while tracking (and are accepted under "
        "no_autodiff); copy()/astype() are detached (no creator, no base, no gradient) with copied data. (creation routines) seeded arguments "
        "for zeros/ones/empty/full/*_like/arange/linspace/logspace/geomspace/eye/identity compared with the NumPy namesake (values, shape, "
        "dtype; float32 default for zeros/ones/empty); every eighth case: mygrad.random.rand/randn/randint/random/random_sample/ranf/sample "
        "after mygrad.random.seed(s) against numpy.random after numpy.random.seed(s) (values, shape, dtype, constant flag, fresh memory). Non-trivial: the call returned; distinct = lattice cell / (routine, argument kinds).")
ASSUMPTIONS = ["np.asarray / np.array on the same input decide dtype, shape and whether memory can be shared",
               "inheritance of the constant flag by astensor(t, dtype=other) is recorded, not judged (the statement does not settle it)"]
BUFKINDS = ["bufarray", "memview", "obj_array", "obj_iface"]   # objects that export their buffer without being ndarrays / tensors
KINDS = ["pyfloat", "pyint", "pybool", "list", "nested", "arrC", "arrF", "arrview", "arrRO", "arr32", "arrint", "arrBE", "bufarray", "memview", "obj_array", "obj_iface", "t_leaf", "t_const", "t_int", "t_BE",
         "t_graph", "t_grad", "t_view"]
DTYPES = [None, "same", "float32", "float64", "int64", "bool", "complex64", "object", "str", "datetime64[s]"]
CONSTS = [None, True, False]
COPIES = ["default", True, False]
NDMINS = [0, 1, 3, -1, "x"]
FUNCS = ["tensor", "Tensor", "astensor", "asarray"]
LATTICE = [c for c in itertools.product(KINDS, DTYPES, CONSTS, COPIES, NDMINS, FUNCS)
           if not (c[5] in ("astensor", "asarray") and (c[3] != "default" or c[4] != 0)) and not (c[5] == "asarray" and c[2] is not None)]
METHODS = [c for c in itertools.product(["t_leaf", "t_const", "t_int", "t_graph", "t_grad", "t_view", "t_viewgrad"], ["copy", "astype"],
                                        [None, "same", "float32", "float64", "int64", "complex64"], CONSTS, [True, False])
           if not (c[1] == "copy" and (c[2] is not None or c[4] is False))]
N_LAT = len(LATTICE) + len(METHODS)
TIERS = {"quick": {"cases": N_LAT + 8000}, "thorough": {"cases": N_LAT + 600000}}
FLOORS = {"quick": {"lattice_cells": N_LAT, "model_checks": 15000, "creation_compared": 1500, "random_compared": 500},
          "thorough": {"lattice_cells": N_LAT, "model_checks": 15000, "creation_compared": 300000, "random_compared": 30000}}
ROUTINES = ["zeros", "ones", "empty", "full", "zeros_like", "ones_like", "empty_like", "full_like", "arange", "linspace", "logspace", "geomspace", "eye", "identity"]


def gen_case(rng, cfg, idx):
    if idx < len(LATTICE):
        return {"kind": "cell", "cell": list(LATTICE[idx])}
    if idx < N_LAT:
        return {"kind": "meth", "cell": list(METHODS[idx - len(LATTICE)])}
    if idx % 8 == 7:
        # mygrad.random: the seeded namesakes of numpy.random
        r = rng.choice(["rand", "randn", "randint", "random", "random_sample", "ranf", "sample"])
        shp = rng.choice([[], [0], [3], [2, 3], [1, 2, 2]])
        a = {"routine": r, "shape": shp, "constant": rng.choice([None, True, False]), "seed": rng.randrange(1 << 20)}
        if r == "randint":
            a["low"], a["high"] = rng.choice([[0, 5], [-3, 3], [7, None]])
            a["dtype"] = rng.choice(["int64", "int32", "int8"])
        return {"kind": "random", "args": a}
    r = rng.choice(ROUTINES)
    dt = rng.choice([None, None, "float32", "float64", "int64", "float16", "bool", "int8"])
    shape = rng.choice([[], [0], [3], [2, 3], [1, 2, 2], 4])
    a = {"routine": r, "dtype": dt, "shape": shape, "constant": rng.choice([None, True])}
    if r in ("full", "full_like"):
        a["fill"] = rng.choice([2, 2.5, True, -1])
    if r in ("zeros_like", "ones_like", "empty_like", "full_like"):
        a["other_dtype"] = rng.choice(["float64", "float32", "int64"])
        a["other_kind"] = rng.choice(["array", "tensor", "list"])
        a["newshape"] = rng.choice([None, None, [6], [2, 3], [], 0, [0], 4, [1, 0]])   # incl. the falsy overrides () / 0
    if r == "arange":
        a["args"] = rng.choice([[5], [2, 7], [1, 10, 3], [0.0, 1.0, 0.25], [5.0], [-3, 3]])
    if r in ("linspace", "logspace", "geomspace"):
        a["start"] = rng.choice([1.0, 2, [1.0, 2.0]])
        a["stop"] = rng.choice([5.0, 10, [3.0, 9.0]])
        a["num"] = rng.choice([0, 1, 5, 50])
        a["endpoint"] = rng.random() < 0.7
        a["axis"] = rng.choice([0, 0, -1])
        if r == "logspace":
            a["base"] = rng.choice([10, 2, 2.5])
    if r == "eye":
        a["N"], a["M"], a["k"] = rng.randint(0, 4), rng.choice([None, 2, 5]), rng.randint(-2, 2)
    if r == "identity":
        a["N"] = rng.randint(0, 4)
    return {"kind": "create", "args": a}


def make_input(kind):
    import mygrad as mg
    base = np.arange(1.0, 7.0).reshape(2, 3)
    if kind == "pyfloat":
        return 2.5
    if kind == "pyint":
        return 3
    if kind == "pybool":
        return True
    if kind == "list":
        return [1.0, 2.0, 3.0]
    if kind == "nested":
        return [[1, 2], [3, 4]]
    if kind == "arrC":
        return base.copy()
    if kind == "arrF":
        return np.asfortranarray(base)
    if kind == "arrview":
        return np.arange(24.0).reshape(4, 6)[::2, 1::2]
    if kind == "arrRO":
        a = base.copy()
        a.flags.writeable = False
        return a
    if kind == "arr32":
        return base.astype(np.float32)
    if kind == "arrint":
        return np.arange(6).reshape(2, 3)
    if kind == "arrBE":
        return base.astype(">f8")            # non-native byte order
    if kind == "t_BE":
        return mg.tensor(base.astype(">f8"))
    if kind == "bufarray":
        import array
        return array.array("d", [1.0, 2.0, 3.0])
    if kind == "memview":
        return memoryview(base.copy())
    if kind == "obj_array":
        class WithArray:
            def __init__(self, a):
                self.a = a

            def __array__(self, dtype=None, copy=None):
                out = self.a if dtype is None or np.dtype(dtype) == self.a.dtype else self.a.astype(dtype)
                return out.copy() if (copy and out is self.a) else out    # (the NumPy 2 protocol: the exporter honours copy=True)
        return WithArray(base.copy())
    if kind == "obj_iface":
        class WithInterface:
            def __init__(self, a):
                self.a = a
                self.__array_interface__ = a.__array_interface__
        return WithInterface(base.copy())
    if kind == "t_leaf":
        return mg.tensor(base)
    if kind == "t_const":
        return mg.tensor(base, constant=True)
    if kind == "t_int":
        return mg.tensor(np.arange(6).reshape(2, 3))
    if kind == "t_graph":
        x = mg.tensor(base)
        y = x * 2.0
        y._keep = x
        return y
    if kind == "t_grad":
        x = mg.tensor(base)
        (x * x).sum().backward()
        return x
    if kind == "t_viewgrad":
        x = mg.tensor(base)
        v = x[:1]
        (x * x).sum().backward()     # v took no part: its gradient is a VIEW of x.grad
        v._keep = x
        return v
    if kind == "t_view":
        x = mg.tensor(base)
        v = x[:1]
        v._keep = x
        return v
    raise KeyError(kind)


def resolve_dtype(d, x):
    import mygrad as mg
    if d is None:
        return None
    if d == "same":
        xd = x.data if isinstance(x, mg.Tensor) else np.asarray(x)
        return xd.dtype
    if d == "str":
        return np.dtype("U4")
    return np.dtype(d)


def run_cell(cell, cnt, viol):
    import mygrad as mg
    kind, d, const, copy, ndmin, fn = cell
    x = make_input(kind)
    is_t = isinstance(x, mg.Tensor)
    xdata = x.data if is_t else x
    dt = resolve_dtype(d, x)
    kw = {}
    if dt is not None:
        # the same dtype, spelled as a dtype object, as the NumPy scalar class, or by name (chosen by the cell, deterministically)
        rep = (len(kind) + len(str(d)) + len(fn) + (0 if ndmin == "x" else int(ndmin))) % 3
        plain = dt.kind in "fiub" and dt.isnative and np.dtype(dt.type) == dt and np.dtype(dt.name) == dt
        kw["dtype"] = dt if (rep == 0 or not plain) else (dt.type if rep == 1 else dt.name)
    if fn != "asarray":
        if const is not None:
            kw["constant"] = const
        if fn != "astensor":
            if copy != "default":
                kw["copy"] = copy
            if ndmin != 0:
                kw["ndmin"] = ndmin
    f = {"tensor": mg.tensor, "Tensor": mg.Tensor, "astensor": mg.astensor, "asarray": mg.asarray}[fn]
    # ---- model
    try:
        want = np.array(xdata, dtype=dt, ndmin=max(0, ndmin) if isinstance(ndmin, int) else 0)
        np_ok = True
    except Exception:
        want, np_ok = None, False
    nonreal = want is not None and want.dtype.kind not in "fiub"
    must_raise = (not np_ok) or (fn != "asarray" and (nonreal or (want.dtype.kind in "iub" and const is False) or not isinstance(ndmin, int)))
    pre = (x.creator, x._grad, x.constant) if is_t else None
    try:
        out = f(x, **kw)
        raised = None
    except Exception as e:
        out, raised = None, e
    cnt["model_checks"] = cnt.get("model_checks", 0) + 1
    tag = f"{fn}({kind}, dtype={d}, constant={const}, copy={copy}, ndmin={ndmin})"
    if must_raise:
        if raised is None:
            viol.append({"monitor": "model", "mech": f"accepted-invalid:{fn}:{'nonreal' if nonreal else 'int-constant-false' if np_ok and isinstance(ndmin, int) else 'other'}",
                         "msg": f"{tag} was accepted (result dtype {getattr(out, 'dtype', None)})"})
        return
    if raised is not None:
        viol.append({"monitor": "model", "mech": f"raised:{fn}:{type(raised).__name__}", "msg": f"{tag} raised {type(raised).__name__}: {raised}"})
        return
    if fn == "asarray":
        if type(out) is not np.ndarray or out.dtype != want.dtype or out.shape != np.asarray(xdata, dtype=dt).shape:
            viol.append({"monitor": "model", "mech": "asarray-type", "msg": f"{tag} returned {type(out).__name__} {getattr(out, 'dtype', '')}"})
        odata = out
    else:
        if not isinstance(out, mg.Tensor):
            viol.append({"monitor": "model", "mech": "not-a-tensor", "msg": f"{tag} returned {type(out).__name__}"})
            return
        odata = out.data
        if odata.dtype != want.dtype or odata.shape != want.shape or not np.array_equal(odata, want, equal_nan=True):
            viol.append({"monitor": "model", "mech": f"dtype-shape-value:{fn}", "msg": f"{tag}: got {odata.dtype} {odata.shape}, NumPy gives {want.dtype} {want.shape}"})
    nocopy = fn in ("astensor", "asarray") or copy is False
    if kind in BUFKINDS:
        xdata = np.asarray(x)     # a window onto the very buffer the object exports
    if isinstance(xdata, np.ndarray) and xdata.size:
        np_alias = np.shares_memory(np.asarray(xdata, dtype=dt), xdata)
        shares = np.shares_memory(odata, xdata)
        if not nocopy and shares:
            viol.append({"monitor": "model", "mech": f"default-does-not-copy:{fn}", "msg": f"{tag}: result shares memory with its input"})
        if nocopy and shares != np_alias:
            viol.append({"monitor": "model", "mech": f"nocopy-aliasing:{fn}", "msg": f"{tag}: shares memory={shares} but np.asarray(input, dtype) shares={np_alias}"})
        if not nocopy and xdata.flags.writeable:
            old = odata.copy()
            xdata[...] = xdata + 100
            if not np.array_equal(odata, old):
                viol.append({"monitor": "model", "mech": f"default-sees-later-changes:{fn}", "msg": f"{tag}: a later change of the input is visible in the tensor"})
    if is_t and fn in ("tensor", "astensor", "Tensor"):
        same_dt = dt is None or dt == xdata.dtype
        same_c = const is None or const is pre[2]
        ident_expected = fn in ("tensor", "astensor") and nocopy and same_dt and same_c and (not isinstance(ndmin, int) or ndmin <= x.ndim)
        if ident_expected and out is not x:
            viol.append({"monitor": "model", "mech": f"identity-lost:{fn}", "msg": f"{tag}: expected the input tensor itself"})
        if fn == "Tensor" and out is x:
            viol.append({"monitor": "model", "mech": "Tensor-returns-argument", "msg": f"{tag} returned its argument"})
        if out is x:
            if x.creator is not pre[0] or x._grad is not pre[1]:
                viol.append({"monitor": "model", "mech": "identity-but-graph-or-grad-touched", "msg": f"{tag}: returned the input but creator/grad changed"})
            if not ident_expected and fn in ("tensor", "astensor") and not (nocopy and same_dt and same_c):
                viol.append({"monitor": "model", "mech": f"identity-unexpected:{fn}", "msg": f"{tag}: returned the input tensor itself although dtype/constant/copy demand a new one"})
        elif not (isinstance(ndmin, int) and fn == "tensor" and nocopy and same_dt and same_c):
            if out.creator is not None or out.grad is not None:
                viol.append({"monitor": "model", "mech": f"new-tensor-not-detached:{fn}", "msg": f"{tag}: a new tensor carries creator={out.creator} grad={out.grad}"})
    if fn != "asarray":
        exp_c = const if const is not None else (out.constant if (is_t and out is x) else (want.dtype.kind != "f"))
        if is_t and out is not x and const is None and want.dtype.kind == "f" and pre[2] is True:
            cnt["cross_constant_not_inherited"] = cnt.get("cross_constant_not_inherited", 0) + (0 if out.constant else 1)
        elif out.constant != exp_c:
            viol.append({"monitor": "model", "mech": f"constant-flag:{fn}", "msg": f"{tag}: constant={out.constant}, model says {exp_c}"})


def run_meth(cell, cnt, viol):
    import mygrad as mg
    kind, meth, d, const, copy = cell
    x = make_input(kind)
    dt = resolve_dtype(d, x)
    tag = f"{kind}.{meth}(dtype={d}, constant={const}, copy={copy})"
    cnt["model_checks"] = cnt.get("model_checks", 0) + 1
    kw = {} if const is None else {"constant": const}
    tdt = x.dtype if (meth == "copy" or dt is None) else dt
    try:
        if meth == "copy":
            out = x.copy(**kw)
        else:
            out = x.astype(tdt, copy=copy, **kw)
        raised = None
    except Exception as e:
        out, raised = None, e
    nonreal = np.dtype(tdt).kind not in "fiub" if raised is None or meth == "astype" else False
    must_raise = (np.dtype(tdt).kind not in "fiub") or (np.dtype(tdt).kind in "iub" and const is False)
    if must_raise:
        if raised is None:
            viol.append({"monitor": "model", "mech": f"accepted-invalid:{meth}", "msg": f"{tag} was accepted"})
        return
    if raised is not None:
        viol.append({"monitor": "model", "mech": f"raised:{meth}:{type(raised).__name__}", "msg": f"{tag} raised {type(raised).__name__}: {raised}"})
        return
    same = np.dtype(tdt) == x.dtype and (const is None or const is x.constant)
    if out is x:
        if not (meth == "astype" and copy is False and same):
            viol.append({"monitor": "model", "mech": f"{meth}-returned-self", "msg": f"{tag} returned the tensor itself"})
        return
    if out.creator is not None or out.base is not None or (meth == "astype" and out.grad is not None):
        viol.append({"monitor": "model", "mech": f"{meth}-not-detached", "msg": f"{tag}: creator={out.creator} base={out.base} grad={out.grad}"})
    if meth == "copy":   # documented: the copy carries a COPY of the gradient
        g0, g1 = x.grad, out.grad
        # (a copy of a VIEW does not carry the view's derived gradient: documented only for tensors holding their own; not judged)
        if g1 is not None and (g0 is None or not np.array_equal(g0, g1) or np.shares_memory(g0, g1)):
            if not out.constant:
                viol.append({"monitor": "model", "mech": "copy-gradient", "msg": f"{tag}: gradient of the copy is not an independent copy of the original's"})
    if out.dtype != np.dtype(tdt) or not np.array_equal(out.data, x.data.astype(tdt)):
        viol.append({"monitor": "model", "mech": f"{meth}-value", "msg": f"{tag}: dtype {out.dtype} / values differ"})
    if np.shares_memory(out.data, x.data) and (meth == "copy" or copy is True):
        viol.append({"monitor": "model", "mech": f"{meth}-shares-memory", "msg": f"{tag}: result shares memory with the original"})
    exp_c = const if const is not None else (x.constant if np.dtype(tdt).kind == "f" else True)
    if meth == "astype" and const is None and np.dtype(tdt).kind == "f" and x.constant and not out.constant:
        # documented ("inferred from the original tensor") but not part of the property's statement: recorded, not judged
        cnt["cross_constant_not_inherited"] = cnt.get("cross_constant_not_inherited", 0) + 1
    elif out.constant != exp_c:
        viol.append({"monitor": "model", "mech": f"{meth}-constant-flag", "msg": f"{tag}: constant={out.constant}, model says {exp_c}"})


def run_create(a, cnt, viol):
    import mygrad as mg
    r = a["routine"]
    dt = None if a["dtype"] is None else np.dtype(a["dtype"])
    kw_mg, kw_np = {}, {}
    if dt is not None:
        kw_mg["dtype"] = kw_np["dtype"] = dt
    if a.get("constant") is not None:
        kw_mg["constant"] = a["constant"]
    shape = a["shape"] if isinstance(a["shape"], int) else tuple(a["shape"])
    pos = []
    if r in ("zeros", "ones", "empty"):
        pos = [shape]
        if dt is None:
            kw_np["dtype"] = np.float32   # documented default of mygrad
    elif r == "full":
        pos = [shape, a["fill"]]
    elif r.endswith("_like"):
        other = np.arange(6, dtype=a["other_dtype"]).reshape(2, 3)
        o_mg = other if a["other_kind"] == "array" else (mg.tensor(other) if a["other_kind"] == "tensor" else other.tolist())
        o_np = other if a["other_kind"] != "list" else other.tolist()
        pos_mg, pos_np = [o_mg], [o_np]
        if r == "full_like":
            pos_mg.append(a["fill"]); pos_np.append(a["fill"])
        if a.get("newshape") is not None:
            kw_mg["shape"] = kw_np["shape"] = a["newshape"] if isinstance(a["newshape"], int) else tuple(a["newshape"])
    elif r == "arange":
        pos = list(a["args"])
    elif r in ("linspace", "logspace", "geomspace"):
        pos = [a["start"], a["stop"]]
        ex = {"num": a["num"], "endpoint": a["endpoint"], "axis": a["axis"]}
        if r == "logspace":
            ex["base"] = a["base"]
        kw_mg.update(ex); kw_np.update(ex)
    elif r == "eye":
        pos = [a["N"]]
        ex = {"M": a["M"], "k": a["k"]}
        kw_mg.update(ex); kw_np.update(ex)
    elif r == "identity":
        pos = [a["N"]]
    if r.endswith("_like"):
        amg, anp = pos_mg, pos_np
    else:
        amg = anp = pos
    try:
        with np.errstate(all="ignore"):
            want = getattr(np, r)(*anp, **kw_np)
    except Exception:
        cnt["np_raises"] = cnt.get("np_raises", 0) + 1
        return
    try:
        with np.errstate(all="ignore"):
            got = getattr(mg, r)(*amg, **kw_mg)
    except Exception as e:
        if want.dtype.kind not in "fiub" or (want.dtype.kind in "iub" and a.get("constant") is False):
            return
        viol.append({"monitor": "creation", "mech": f"creation-raises:{r}:{type(e).__name__}", "msg": f"mg.{r}({amg}, {kw_mg}) raised {type(e).__name__}: {e}; NumPy returns {want.dtype} {want.shape}"})
        return
    cnt["creation_compared"] = cnt.get("creation_compared", 0) + 1
    if not isinstance(got, mg.Tensor):
        viol.append({"monitor": "creation", "mech": f"creation-not-tensor:{r}", "msg": f"mg.{r} returned {type(got).__name__}"})
        return
    bad = got.dtype != want.dtype or got.shape != want.shape
    if not bad and not r.startswith("empty"):
        bad = not np.array_equal(got.data, want, equal_nan=True)
    if bad:
        viol.append({"monitor": "creation", "mech": f"creation-differs:{r}", "msg": f"mg.{r}({amg}, {kw_mg}) -> {got.dtype} {got.shape}; np.{r} -> {want.dtype} {want.shape}"})
    if got.creator is not None or got.base is not None:
        viol.append({"monitor": "creation", "mech": f"creation-not-fresh:{r}", "msg": f"mg.{r} result has creator/base"})
    # every call creates NEW memory: a second call neither aliases the first nor sees what was written into it
    if got.size and not r.endswith("_like"):
        with np.errstate(all="ignore"):
            got2 = getattr(mg, r)(*amg, **kw_mg)
            if np.shares_memory(got.data, got2.data):
                viol.append({"monitor": "creation", "mech": f"creation-aliases-previous-result:{r}", "msg": f"two calls of mg.{r}({amg}, {kw_mg}) share memory"})
            elif got.data.flags.writeable and not r.startswith("empty"):
                got.data[...] = (got.data + 1) if got.dtype.kind != "b" else ~got.data
                got3 = getattr(mg, r)(*amg, **kw_mg)
                if not np.array_equal(got3.data, want, equal_nan=True):
                    viol.append({"monitor": "creation", "mech": f"creation-sees-earlier-write:{r}", "msg": f"after writing into an earlier mg.{r} result a new call differs from NumPy"})


def run_case(case):
    import mygrad as mg
    REG.reset()
    cnt, viol = {}, []
    if case["kind"] == "cell":
        run_cell(case["cell"], cnt, viol)
        cnt["lattice_cells"] = 1
        # non-real dtypes are accepted when tracking is off
        kind, d, const, copy, ndmin, fn = case["cell"]
        if d in ("complex64",) and fn in ("tensor", "Tensor") and kind in ("arrC", "pyfloat", "list") and isinstance(ndmin, int) and const is not False:
            try:
                with mg.no_autodiff:
                    t = getattr(mg, fn)(make_input(kind), dtype=np.complex64)
                cnt["model_checks"] += 1
                if t.dtype != np.complex64:
                    viol.append({"monitor": "model", "mech": "nonreal-under-no_autodiff", "msg": f"{fn} under no_autodiff gave dtype {t.dtype}"})
            except Exception as e:
                viol.append({"monitor": "model", "mech": "nonreal-rejected-under-no_autodiff", "msg": f"{fn}(.., dtype=complex64) under no_autodiff raised {type(e).__name__}: {e}"})
        sig = "cell:" + repr(case["cell"])
    elif case["kind"] == "meth":
        run_meth(case["cell"], cnt, viol)
        cnt["lattice_cells"] = 1
        sig = "meth:" + repr(case["cell"])
    elif case["kind"] == "random":
        a = case["args"]
        r, shp = a["routine"], tuple(a["shape"])
        if r in ("rand", "randn"):
            pos, kw = list(shp), {}
        elif r == "randint":
            pos, kw = [a["low"], a["high"], shp, np.dtype(a["dtype"])], {}
        else:
            pos, kw = [shp if shp else None], {}
        kwm = dict(kw)
        if a["constant"] is not None and r != "randint":
            kwm["constant"] = a["constant"]
        np.random.seed(a["seed"])
        want = getattr(np.random, r)(*pos, **kw)
        mg.random.seed(a["seed"])
        try:
            got = getattr(mg.random, r)(*pos, **kwm)
        except Exception as e:
            viol.append({"monitor": "creation", "mech": f"random-raises:{r}", "msg": f"mg.random.{r}({pos}, {kwm}) raised {type(e).__name__}: {e}"})
            got = None
        if got is not None:
            cnt["random_compared"] = cnt.get("random_compared", 0) + 1
            w = np.asarray(want)
            expect_const = (a["constant"] is True) or w.dtype.kind != "f"
            if not isinstance(got, mg.Tensor) or got.dtype != w.dtype or got.shape != w.shape or not np.array_equal(got.data, w):
                viol.append({"monitor": "creation", "mech": f"random-differs:{r}", "msg": f"mg.random.{r}({pos}) after seed({a['seed']}) differs from numpy.random.{r}"})
            elif got.constant != expect_const or got.creator is not None or got.base is not None or got.grad is not None:
                viol.append({"monitor": "creation", "mech": f"random-flags:{r}", "msg": f"mg.random.{r}(constant={a['constant']}) -> constant={got.constant}, creator={got.creator}, base={got.base}"})
            else:
                got2 = getattr(mg.random, r)(*pos, **kwm)
                if got.size and np.shares_memory(got.data, got2.data):
                    viol.append({"monitor": "creation", "mech": f"random-aliases:{r}", "msg": "two calls share memory"})
        sig = "random:" + repr((r, str(shp), a["constant"], a.get("dtype")))
    else:
        run_create(case["args"], cnt, viol)
        a = case["args"]
        sig = "create:" + repr((a["routine"], a["dtype"], str(a["shape"]), a.get("other_kind"), a.get("other_dtype"), a.get("num"), str(a.get("newshape"))))
    return {"viol": viol[:3], "counters": cnt, "sets": {"kinds": [case["kind"]]}, "sig": sig, "nontrivial": True}

"""C13 — a failed operation leaves no trace (fault enumeration: programs x positions x fault kinds)."""
import copy
import hashlib
import random
import numpy as np

from mgverif.hooks import REG, InjectedFault
from mgverif.prog import Interp, enc_arr
from mgverif import mgrun
from mgverif.props import C05

PID = "C13"
LEVEL = "fault_enumeration"
RULE = ("base programs from the in-place/view history generator (views, reads, set-item/augmented/out=/where=/.shape updates, weighted "
        "read-out, backward); at EVERY statement position and for EVERY fault kind of the catalogue one failing statement aimed at a random "
        "live tensor is inserted: natural faults (shape mismatch in a non-view op, out-of-range index, bad axis, bad reshape, non-broadcastable "
        "set-item / augmented value on a base or view, read-only in-place target, out=ndarray/out=Tensor of the wrong shape, where= of the wrong "
        "shape, non-real dtype=, constant=False on an integer result, impossible .shape, einsum/concatenate/matmul mismatch) and injected kernel "
        "faults at the Operation.__call__ boundary (raise before the kernel; raise after the kernel has run / written into out) on a non-view op, "
        "a view op, set-item, augmented assignment and out=. Judged: (1) snapshot of every live tensor (bytes, dtype, shape, constant flag, base "
        "identity, creator identity, consumer count, array writeability, object identity) and of every caller array's flag is identical right "
        "before and right after the exception; (2) final values and gradients of the program are bit-identical to the fault-free run. "
        "A fault point is non-trivial when the statement actually raised; distinct = (fault kind, target role, position class).")
ASSUMPTIONS = ["faults are injected only at the kernel boundary (where operations raise), not at arbitrary bookkeeping lines",
               "a fault statement that does not raise is counted as 'did_not_raise' and not judged"]
TIERS = {"quick": {"cases": 112, "nstmts": (3, 9), "max_positions": 12}, "thorough": {"cases": 4000, "nstmts": (4, 18), "max_positions": 40}}
FLOORS = {"quick": {"fault_points_raised": 4000, "snapshots_compared": 4000, "final_compared": 4000},
          "thorough": {"fault_points_raised": 20000, "snapshots_compared": 20000, "final_compared": 20000}}
CASE_TIMEOUT_S = 600

NATURAL = ["setitem_bad_index", "add_shape", "bad_index", "bad_axis", "bad_reshape", "setitem_shape", "aug_shape", "readonly_target", "out_arr_shape", "out_tensor_shape",
           "where_shape", "bad_dtype", "int_constant_false", "setshape_bad", "einsum_mismatch", "concat_mismatch", "matmul_mismatch", "bad_operand_ragged", "bad_operand_none", "bad_operand_str", "bad_operand_dtypeobj"]
INJECTED = [("inj_op", "before"), ("inj_op", "after"), ("inj_view", "before"), ("inj_view", "after"), ("inj_setitem", "before"),
            ("inj_setitem", "after"), ("inj_aug", "before"), ("inj_aug", "after"), ("inj_out", "before"), ("inj_out", "after")]


def gen_case(rng, cfg, idx):
    c = C05.gen_case(rng, {"nstmts": cfg["nstmts"], "two_epoch": False}, idx)
    if c is None:
        return None
    c["fseed"] = rng.randrange(1 << 30)
    c["max_positions"] = cfg["max_positions"]
    return c


def fault_stmt(kind, t, shape, rng, mode=None):
    """A statement built to fail, aimed at live float tensor `t` of `shape`."""
    n = int(np.prod(shape, dtype=int))
    bad = [n + 2, 3] if len(shape) != 2 else [n + 2, 3, 2]
    badarr = enc_arr(np.ones(bad))
    R = ["r", t]
    if kind == "add_shape":
        return {"k": "call", "out": "__f", "fn": "add", "a": [R, badarr], "sp": rng.choice(["mg", "op", "np"])}
    if kind == "bad_index":
        ix = ["t", [0] * (len(shape) + 1)] if rng.random() < 0.5 or not shape else (shape[0] + 3)
        return {"k": "call", "out": "__f", "fn": "getitem", "a": [R, ix], "sp": "mg"}
    if kind == "bad_axis":
        return {"k": "call", "out": "__f", "fn": rng.choice(["sum", "mean", "max", "cumsum"]), "a": [R], "kw": {"axis": len(shape) + 2}, "sp": "mg"}
    if kind == "bad_reshape":
        return {"k": "call", "out": "__f", "fn": "reshape", "a": [R, ["t", [n + 1]]], "sp": rng.choice(["mg", "meth"])}
    if kind.startswith("bad_operand_"):
        # an operand that cannot be cast to a tensor, placed AFTER a tensor operand (which has been seen - and locked - by then)
        bad_op = {"ragged": ["l", [["l", [1.0, 2.0]], ["l", [3.0]]]], "none": None, "str": "abc", "dtypeobj": ["dt", "float64"]}[kind[len("bad_operand_"):]]
        fn = rng.choice(["multiply", "add", "maximum", "add_sequence"])
        args = [R, bad_op] if fn != "add_sequence" else [R, R, bad_op]
        return {"k": "call", "out": "__f", "fn": fn, "a": args, "sp": rng.choice(["mg", "mg", "op"]) if fn in ("multiply", "add") else "mg"}
    if kind == "setitem_shape":
        return {"k": "setitem", "tgt": t, "index": ["e"], "value": badarr}
    if kind == "setitem_bad_index":   # IndexError (not ValueError) from an in-place statement
        ix = (shape[0] + 3) if (shape and rng.random() < 0.5) else ["t", [0] * (len(shape) + 1)]
        return {"k": "setitem", "tgt": t, "index": ix, "value": 1.0}
    if kind == "aug_shape":
        return {"k": "aug", "tgt": t, "op": rng.choice(["+", "*", "-"]), "value": badarr}
    if kind == "readonly_target":
        return [{"k": "call", "out": "__ro", "fn": "broadcast_to", "a": [R, ["t", [2] + list(shape)]], "sp": "mg", "setup": True},
                {"k": "setitem", "tgt": "__ro", "index": ["e"], "value": 1.0}]
    if kind == "out_arr_shape":
        return [{"k": "leaf", "out": "__o", "kind": "array", "dtype": "float64", "shape": bad, "data": [0.0] * int(np.prod(bad)), "layout": "C", "setup": True},
                {"k": "call", "out": "__f", "fn": "multiply", "a": [R, R], "kw": {"out": ["r", "__o"]}, "sp": rng.choice(["mg", "np"])}]
    if kind == "out_tensor_shape":
        return [{"k": "leaf", "out": "__o", "kind": "tensor", "dtype": "float64", "shape": bad, "data": [0.0] * int(np.prod(bad)), "layout": "C", "setup": True},
                {"k": "uout", "fn": "multiply", "a": [R, R], "kw": {}, "tgt": "__o", "sp": rng.choice(["mg", "np"])}]
    if kind == "where_shape":
        return [{"k": "leaf", "out": "__o", "kind": "tensor", "dtype": "float64", "shape": list(shape), "data": [0.0] * n, "layout": "C", "setup": True},
                {"k": "uout", "fn": "exp", "a": [R], "kw": {"where": enc_arr(np.ones(bad, dtype=bool))}, "tgt": "__o", "sp": "mg"}]
    if kind == "bad_dtype":
        return {"k": "call", "out": "__f", "fn": "add", "a": [R, 1.0], "kw": {"dtype": ["dt", "complex64"]}, "sp": "mg"}
    if kind == "int_constant_false":
        return [{"k": "leaf", "out": "__i", "kind": "array", "dtype": "int64", "shape": list(shape), "data": [1] * n, "layout": "C", "setup": True},
                {"k": "call", "out": "__f", "fn": "add", "a": [["r", "__i"], 2], "kw": {"constant": False}, "sp": "mg"}]
    if kind == "setshape_bad":
        return {"k": "setshape", "tgt": t, "shape": ["t", [n + 1]]}
    if kind == "einsum_mismatch":
        return {"k": "call", "out": "__f", "fn": "einsum", "a": ["i,i->", ["r", t] if len(shape) == 1 else enc_arr(np.ones(3)), enc_arr(np.ones(n + 4))], "sp": "mg"} \
            if len(shape) == 1 else {"k": "call", "out": "__f", "fn": "einsum", "a": ["ijklm->", R], "sp": "mg"}
    if kind == "concat_mismatch":
        return {"k": "call", "out": "__f", "fn": "concatenate", "a": [["l", [R, enc_arr(np.ones((1,) * (len(shape) + 1)))]]], "sp": rng.choice(["mg", "np"])}
    if kind == "matmul_mismatch":
        return {"k": "call", "out": "__f", "fn": "matmul", "a": [R, enc_arr(np.ones((n + 5, 2)))], "sp": rng.choice(["mg", "op"])} if shape else \
            {"k": "call", "out": "__f", "fn": "matmul", "a": [R, R], "sp": "mg"}
    # injected kernel faults on statements that would otherwise succeed
    # the fault fires in the kernel of the statement's OWN operation class (never in the internal replays of view ops that
    # the in-place machinery performs: those re-run ops that already succeeded on the same operands and cannot raise)
    inj = {"inject": mode, "inject_at": 0}
    if kind == "inj_op":
        return dict({"k": "call", "out": "__f", "fn": "multiply", "a": [R, 2.0], "sp": "mg", "inject_only": "Multiply"}, **inj)
    if kind == "inj_view":
        return dict({"k": "call", "out": "__f", "fn": "getitem", "a": [R, ["e"]], "sp": "mg", "inject_only": "GetItem"}, **inj)
    if kind == "inj_setitem":
        return dict({"k": "setitem", "tgt": t, "index": ["e"], "value": 0.75, "inject_only": "SetItem"}, **inj)
    if kind == "inj_aug":
        return dict({"k": "aug", "tgt": t, "op": "*", "value": 1.5, "inject_only": "Multiply"}, **inj)
    if kind == "inj_out":
        return dict({"k": "uout", "fn": "exp", "a": [enc_arr(np.full(shape, 0.3))], "kw": {}, "tgt": t, "sp": "mg", "inject_only": "Exp"}, **inj)
    raise KeyError(kind)


def native_ro_probe(rng, shape):
    """A tensor family whose memory was read-only BEFORE MyGrad ever locked it: leaf (copy=False wrapper of a read-only array), a view of
    it and a consumer of both; an in-place update through the view (or the leaf) must be refused and must leave the family wired
    to the consumer: the consumer's backward then still reaches leaf and view.  Returns None or a violation message."""
    import mygrad as mg
    shape = tuple(shape) if shape else (2,)
    n = int(np.prod(shape))

    def build():
        a = np.arange(1.0, n + 1.0).reshape(shape).copy()   # owns its memory (a read-only VIEW of a writeable owner is the C08 finding)
        a.flags.writeable = False
        x = mg.Tensor(a, copy=False)
        v = x[...]
        y = x * 2.0 + v * 3.0
        return a, x, v, y

    a, x, v, y = build()
    tgt = v if rng.random() < 0.6 else x
    try:
        if rng.random() < 0.5:
            tgt[...] = 1.0
        else:
            tgt *= 2.0
        return "an in-place update of natively read-only memory was accepted"
    except Exception:
        pass
    y.sum().backward()
    a2, x2, v2, y2 = build()
    y2.sum().backward()
    for name, t, t2 in (("leaf", x, x2), ("view", v, v2)):
        g, g2 = t.grad, t2.grad
        if (g is None) != (g2 is None) or (g is not None and not np.array_equal(g, g2)):
            return f"after a refused in-place update of natively read-only memory the {name}'s gradient is {None if g is None else g.ravel()[:3]}, fault-free {None if g2 is None else g2.ravel()[:3]}"
    if a.flags.writeable or not np.array_equal(a, a2):
        return "the natively read-only array was made writeable / modified"
    return None


BACKWARD_FAULTS = [("bw_bad_seed", None), ("bw_abort", "before"), ("bw_abort", "after"), ("bw_abort", "after"), ("bw_abort", "after")]


def backward_fault_stmt(kind, st, mode, rng, nops):
    """A failing variant of the backward statement `st`: a seed of an incompatible shape (natural ValueError), or a back-propagation
    aborted by an exception inside / right after the backward of its k-th operation (what a FloatingPointError under np.errstate, a
    KeyboardInterrupt or a MemoryError does); the program then simply calls backward again."""
    f = dict(st)
    if kind == "bw_bad_seed":
        f["seed"] = enc_arr(np.ones((3, 5, 7)))
    else:
        f["inject_bw"] = {"mode": mode, "countdown": rng.randrange(max(1, nops))}
    return f


def snapshot(env, extra_arrays=()):
    snap = {}
    for n, v in env.items():
        if n.startswith("__") and not isinstance(v, np.ndarray):
            continue
        if mgrun.is_tensor(v):
            d = v.data
            try:
                nops = sum(1 for r in v._ops if r() is not None)
            except Exception:
                nops = -1
            snap[n] = ("T", id(v), hashlib.sha1(np.ascontiguousarray(d).tobytes()).hexdigest(), str(d.dtype), d.shape, v.constant,
                       id(v.base) if v.base is not None else None, id(v.creator) if v.creator is not None else None, nops,
                       bool(d.flags.writeable), None if v._grad is None else hashlib.sha1(v._grad.tobytes()).hexdigest())
        elif isinstance(v, np.ndarray):
            snap[n] = ("A", id(v), hashlib.sha1(np.ascontiguousarray(v).tobytes()).hexdigest(), bool(v.flags.writeable))
    return snap


FIELDS_T = ["kind", "identity", "data", "dtype", "shape", "constant", "base", "creator", "consumers", "writeable", "grad"]


def diff_snap(a, b, ignore=()):
    out = []
    for n in a:
        if n not in b:
            out.append(f"{n} disappeared")
        elif a[n] != b[n]:
            names = FIELDS_T if a[n][0] == "T" else ["kind", "identity", "data", "writeable"]
            ch = [names[i] for i in range(min(len(a[n]), len(b[n]))) if a[n][i] != b[n][i] and names[i] not in ignore]
            if ch:
                out.append(f"{n}: {','.join(ch)} changed")
    return out


def run_with_fault(prog, pos, fstmts):
    """Run prog with failing statements inserted before position pos. Returns (env, grads, raised?, snapshot diff, exc repr)."""
    REG.reset()
    it = Interp("mg")
    it.run(prog, upto=pos, catch=False)
    fstmts = fstmts if isinstance(fstmts, list) else [fstmts]
    for st in fstmts[:-1]:
        it.exec(-1, st)
    before = snapshot(it.env)
    raised, exc = False, None
    try:
        with np.errstate(all="ignore"):
            it.exec(-1, fstmts[-1])
    except Exception as e:
        # keep only the name: holding the exception object would keep the failed operation's frames (and with them its
        # operation object, placeholders and locked arrays) alive, which no user program does past its except block
        raised, exc = True, type(e).__name__
    after = snapshot(it.env)
    for n in [n for n in it.env if n.startswith("__")]:
        del it.env[n]  # helper operands of the failing statement (out= targets, a read-only view, ...) go out of scope
    # (an aborted back-propagation leaves partial gradients behind; the property speaks of values, flags, bases, views and the place in the graph)
    diffs = diff_snap(before, after, ignore=("grad",) if fstmts[-1]["k"] == "backward" else ()) if raised else []
    if not raised:
        return it, None, False, [], None
    for i in range(pos, len(prog)):
        it.exec(i, prog[i])
    return it, mgrun.snapshot_grads(it.env), True, diffs, exc


def run_case(case):
    prog = case["prog"]
    rng = random.Random(case["fseed"])
    REG.reset()
    ref = Interp("mg")
    ref.run(prog, catch=False)
    ref_grads = mgrun.snapshot_grads(ref.env)
    ref_vals = {n: np.array(v.data) for n, v in ref.env.items() if mgrun.is_tensor(v)}
    # shapes of live float tensors before each position (from the NumPy shadow)
    sh = Interp("np")
    live = []
    for i, st in enumerate(prog):
        live.append({n: np.shape(v) for n, v in sh.env.items() if isinstance(v, np.ndarray) and v.dtype.kind == "f" and n in ref.env
                     and mgrun.is_tensor(ref.env[n])})
        sh.exec(i, st)
    live.append({n: np.shape(v) for n, v in sh.env.items() if isinstance(v, np.ndarray) and v.dtype.kind == "f" and n in ref.env
                 and mgrun.is_tensor(ref.env[n])})      # ... and AFTER the final backward (cleared graphs, lingering bases)
    positions = [p for p in range(1, len(prog) + 1) if live[p]]
    if len(positions) > case["max_positions"]:
        positions = sorted(rng.sample(positions[:-1], case["max_positions"] - 1)) + [positions[-1]]
    viol, cnt, sets = [], {"fault_points": 0, "fault_points_raised": 0, "did_not_raise": 0, "snapshots_compared": 0, "final_compared": 0}, {}
    kinds = [(k, None) for k in NATURAL] + INJECTED
    for p in positions:
        cnt["fault_points"] += 1
        todo = list(kinds)
        if p < len(prog) and prog[p]["k"] == "backward":
            todo += BACKWARD_FAULTS
        msg = native_ro_probe(rng, live[p][sorted(live[p])[0]])
        cnt["native_ro_probes"] = cnt.get("native_ro_probes", 0) + 1
        if msg:
            viol.append({"monitor": "final", "mech": "native-readonly-family", "fault": "native_ro", "pos": p, "target": None, "msg": msg})
        for kind, mode in todo:
            t = rng.choice(sorted(live[p]))
            shape = live[p][t]
            tag = kind + (":" + mode if mode else "")
            try:
                if kind.startswith("bw_"):
                    t = prog[p]["tgt"]
                    fst = backward_fault_stmt(kind, prog[p], mode, rng, sum(1 for st in prog[:p] if st["k"] in ("call", "setitem", "aug", "uout")))
                    cnt["backward_faults"] = cnt.get("backward_faults", 0) + 1
                else:
                    fst = fault_stmt(kind, t, shape, rng, mode)
            except Exception:
                continue
            if p == len(prog) and (fst[-1] if isinstance(fst, list) else fst)["k"] != "call":
                continue   # after the final backward a failing IN-PLACE statement legitimately discards its target's stale gradient first
            cnt["fault_points"] += 1
            try:
                it, grads, raised, diffs, exc = run_with_fault(prog, p, fst)
            except Exception as e:
                viol.append({"monitor": "continuation", "mech": f"continuation-raises:{tag}:{type(e).__name__}", "fault": tag, "pos": p, "target": t,
                             "msg": f"after fault {tag} on {t} at position {p} the rest of the program raised {type(e).__name__}: {e}"})
                continue
            if not raised:
                cnt["did_not_raise"] += 1
                sets.setdefault("did_not_raise", []).append(tag)
                continue
            cnt["fault_points_raised"] += 1
            sets.setdefault("fault_kinds", []).append(tag + ":" + exc)
            cnt["snapshots_compared"] += 1
            if diffs:
                viol.append({"monitor": "snapshot", "mech": f"trace:{tag}", "fault": tag, "pos": p, "target": t,
                             "msg": f"fault {tag} on {t} at position {p} ({exc}): " + "; ".join(diffs[:4])})
            cnt["final_compared"] += 1
            bad = []
            for n, v in ref_vals.items():
                w = it.env.get(n)
                if w is None or not mgrun.is_tensor(w) or w.data.shape != v.shape or not np.array_equal(w.data, v, equal_nan=True):
                    bad.append(f"value of {n}")
            for n, g in ref_grads.items():
                g2 = grads.get(n)
                if (g is None) != (g2 is None) or (g is not None and not np.array_equal(g, g2, equal_nan=True)):
                    bad.append(f"grad of {n}")
            if bad:
                viol.append({"monitor": "final", "mech": f"final-differs:{tag}", "fault": tag, "pos": p, "target": t,
                             "msg": f"fault {tag} on {t} at position {p}: final {', '.join(bad[:5])} differ from the fault-free run"})
            # locks: every array of every live tensor must be unlocked at quiescence like in the fault-free run
            for n, v in it.env.items():
                if mgrun.is_tensor(v) and n in ref.env and mgrun.is_tensor(ref.env[n]):
                    if v.data.flags.writeable != ref.env[n].data.flags.writeable:
                        from mygrad._utils import lock_management as _lm
                        dbg = {"arr": id(v.data), "base": id(v.data.base) if v.data.base is not None else None,
                               "counter": {str(k): c for k, c in _lm._array_counter.items()},
                               "tracker": [str(k) for k in _lm._array_tracker],
                               "waiting": {str(k): [str(q) for q in w] for k, w in _lm._views_waiting_for_unlock.items()}}
                        viol.append({"monitor": "locks", "mech": f"lock-state-differs:{tag}", "fault": tag, "pos": p, "target": t, "debug": dbg,
                                     "msg": f"fault {tag}: {n}.data.flags.writeable={v.data.flags.writeable} vs fault-free {ref.env[n].data.flags.writeable}"})
                        break
            if len(viol) > 12:
                break
    return {"viol": viol[:8], "counters": cnt, "sets": {k: sorted(set(v)) for k, v in sets.items()}, "sig": mgrun.struct_sig(prog),
            "nontrivial": cnt["fault_points_raised"] >= 5}


def classify(v, case):
    return v.get("mech") or v["monitor"]

"""C06 — a view's gradient is the corresponding view of its base's gradient."""
import random
import numpy as np

from mgverif.hooks import REG
from mgverif.prog import Interp
from mgverif.oracle import Shadow
from mgverif import mgrun
from mgverif.gen import build as B
from mgverif.gen.inplace import gen_history, add_readout, grow, epoch_boundary

PID = "C06"
LEVEL = "exploration"
RULE = ("seeded random programs: a base (leaf or op output; C/F/strided/negative-stride/transposed layout) with chains of 1-4 view ops "
        "(basic indexing, reshape, ravel, squeeze, expand_dims, broadcast_to, atleast_kd, transpose/T/moveaxis/swapaxes, einsum diagonal/"
        "permutation), non-view consumers of the base and of any subset of views in random statement order (including transposing / "
        "reversing consumers so that the first contribution reaching the base varies in source op and memory layout), views inside and "
        "outside L's graph; after backward() gradients are read in random order, twice, some views after v.clear_graph(). Judged for every "
        "view v of owner b: availability (v.grad is None iff b.grad is None), value (v.grad == b.grad gathered through the NumPy index map of "
        "the view chain, exact), np.shares_memory(v.grad, b.grad); and for every pair of tensors: gradients share memory only if data do. "
        "Non-trivial: >=2 views with a gradient; distinct = structure hash. Evidence lists distinct (first-contributing op, layout) pairs "
        "observed at Operation.backward.")
ASSUMPTIONS = ["functional programs only; in-place histories are C05's", "every fourth program has a second graph epoch over survivors of the cleared graph; there only tensors used by that epoch are observed", "empty tensors excluded from sharing checks"]
TIERS = {"quick": {"cases": 10000, "nstmts": (3, 10)}, "thorough": {"cases": 300000, "nstmts": (4, 22)}}
FLOORS = {"quick": {"view_checks": 8000, "pair_checks": 50000, "epoch2_view_checks": 1500},
          "thorough": {"view_checks": 40000, "pair_checks": 250000, "epoch2_view_checks": 8000}}


SINGLE_VIEWS = ["reshape11", "newaxis", "ellipsis", "reshape1", "atleast_2d", "expand_dims", "ravel", "broadcast_to11", "T"]
SINGLE_CONSUMERS = ["mul_vec", "add_mat", "maximum_vec", "mul_scalar", "sum_of_view", "sub_rev", "div_mat", "where", "matmul_vec", "einsum", "square"]


def gen_single(rng):
    """A base holding ONE element (shape (), (1,) or (1, 1); float64/32/16) whose consumers broadcast it: the gradient contributions that reach
    it are sum-reduced to its shape (a NumPy scalar for a 0-d base).  Views of it inside and outside the graph."""
    nviews = rng.randint(2, 5)
    views = [{"how": rng.choice(SINGLE_VIEWS), "of": rng.choice([-1] + list(range(i))) if rng.random() < 0.4 else -1, "ingraph": rng.random() < 0.5,
              "before": rng.random() < 0.6} for i in range(nviews)]
    return {"kind": "single", "shape": rng.choice([[], [], [1], [1, 1]]), "dtype": rng.choice(["float64", "float32", "float32", "float16"]),
            "from_op": rng.random() < 0.3, "consumers": [rng.choice(SINGLE_CONSUMERS) for _ in range(rng.randint(1, 3))], "views": views,
            "vseed": rng.randrange(1 << 30), "cseed": rng.randrange(1 << 30)}


def run_single(case):
    import mygrad as mg
    REG.reset()
    rng = np.random.default_rng(case["vseed"])
    dt = np.dtype(case["dtype"])
    viol, cnt, sets = [], {"view_checks": 0, "pair_checks": 0, "views_with_grad": 0, "single_cases": 1}, {}
    leaf = mg.tensor(rng.uniform(0.5, 1.5, size=tuple(case["shape"])).astype(dt))
    x = leaf * dt.type(1.25) if case["from_op"] else leaf

    def view_of(t, how):
        if how == "reshape11":
            return t.reshape(1, 1)
        if how == "newaxis":
            return t[np.newaxis]
        if how == "ellipsis":
            return t[...]
        if how == "reshape1":
            return mg.reshape(t, (1,))
        if how == "atleast_2d":
            return mg.atleast_2d(t)
        if how == "expand_dims":
            return mg.expand_dims(t, 0)
        if how == "ravel":
            return mg.ravel(t)
        if how == "broadcast_to11":
            return mg.broadcast_to(t, (1,) * max(1, t.ndim))
        return t.T

    def consume(t, how):
        v3, m22 = rng.uniform(0.5, 1.5, size=3).astype(dt), rng.uniform(0.5, 1.5, size=(2, 2)).astype(dt)
        if how == "mul_vec":
            return (t * v3).sum()
        if how == "add_mat":
            return (t + m22).sum()
        if how == "maximum_vec":
            return mg.maximum(t, v3 - dt.type(1)).sum()
        if how == "mul_scalar":
            return (t * dt.type(2)).sum()
        if how == "sum_of_view":
            return t[...].sum()
        if how == "sub_rev":
            return (v3[::-1] - t).sum()
        if how == "div_mat":
            return (m22.T / t).sum()
        if how == "where":
            return mg.where(v3 > 1, t, v3).sum()
        if how == "matmul_vec":
            return (mg.broadcast_to(t.reshape(1), (3,)) @ v3) if t.size == 1 else t.sum()
        if how == "einsum":
            return mg.einsum("...,i->i", t.reshape(()) if t.ndim else t, v3).sum()
        return mg.square(t).sum()

    made = []
    def make(i):
        v = case["views"][i]
        # (a view taken after the backward pass is taken of the base itself: using a released *view* as an operand again starts a new epoch
        #  for it - it lets go of its base - which the two-epoch histories cover)
        src = x if v["of"] < 0 or v["of"] >= len(made) or made[v["of"]] is None or not v["before"] else made[v["of"]]
        return view_of(src, v["how"])
    for i, v in enumerate(case["views"]):
        made.append(make(i) if v["before"] else None)
    terms = [consume(x, how) for how in case["consumers"]]
    for i, v in enumerate(case["views"]):
        if v["before"] and v["ingraph"]:
            terms.append(consume(made[i], case["consumers"][i % len(case["consumers"])]))
    L = terms[0]
    for t_ in terms[1:]:
        L = L + t_
    L.backward()
    for i, v in enumerate(case["views"]):
        if made[i] is None:
            made[i] = make(i)             # a view taken after the backward pass
    gb = x.grad
    if gb is None:
        viol.append({"monitor": "availability", "mech": "base-grad-missing", "msg": "the base took part in the back-propagated graph but has no gradient"})
    else:
        for i, v in enumerate(made):
            if not np.shares_memory(v.data, x.data):
                continue                  # (not a view after all)
            cnt["view_checks"] += 1
            how = case["views"][i]["how"]
            gv = v.grad
            if gv is None:
                viol.append({"monitor": "availability", "mech": "view-grad-missing", "msg": f"view #{i} ({how}) of the one-element {case['dtype']} base {tuple(case['shape'])}: grad is None while the base's is set"})
                continue
            cnt["views_with_grad"] += 1
            sets.setdefault("view_kinds", []).append(how)
            if gv.shape != v.shape or not np.array_equal(np.ravel(gv), np.ravel(gb)):
                viol.append({"monitor": "value", "mech": "view-grad-value", "msg": f"view #{i} ({how}).grad != the base's gradient seen through the view"})
            elif not np.shares_memory(gv, gb):
                viol.append({"monitor": "sharing", "mech": "view-grad-not-shared", "msg": f"view #{i} ({how}).grad does not share memory with the {case['dtype']} base's gradient (base shape {tuple(case['shape'])}, consumers {case['consumers']})"})
    first = {}
    for cls, i, lay, vid in REG.arrival:
        first.setdefault(vid, (cls, lay))
    sets["first_contribution"] = sorted({f"{c}:{l}" for c, l in first.values()})
    sets["view_kinds"] = sorted(set(sets.get("view_kinds", [])))
    sig = f"single:{case['shape']}:{case['dtype']}:{case['from_op']}:{case['consumers']}:{[(v['how'], v['of'], v['ingraph'], v['before']) for v in case['views']]}"
    return {"viol": viol[:5], "counters": cnt, "sets": sets, "sig": sig, "nontrivial": cnt["views_with_grad"] >= 2}


def gen_case(rng, cfg, idx):
    if idx % 8 == 6:
        return gen_single(rng)
    for _ in range(10):
        direct = idx % 8 == 5
        b, base, _ = gen_history(rng, nstmts=cfg["nstmts"], int_prob=0.0, nonconst_only=True, inplace_w=0, setshape_w=0, view_w=6, read_w=3,
                                 second_family_prob=0.2, layouts=["F", "T", "F", "neg", "C"] if direct else None, max_ndim=3 if not direct else 2,
                                 base_from_op_prob=0.4 if not direct else 0.3)
        if direct and np.ndim(b.val(base)) == 2:
            # layout-sensitive view chains of the terminal itself: transpose, then flatten (a view exactly when the memory order allows)
            vt = b.call("T", [B.R(base)], sp="mg", prefix="w")
            if vt is not None:
                b.call(rng.choice(["ravel", "flatten_view"]) if False else "ravel", [B.R(vt)], sp=rng.choice(["mg", "meth"]), prefix="w")
                b.call("reshape", [B.R(vt), ["t", [-1]]], sp="mg", prefix="w")
            b.call("ravel", [B.R(base)], sp="mg", prefix="w")
        if direct and np.size(b.val(base)) > 1 and idx % 16 == 5:
            # backward() called directly on the (non-scalar) base of the views, in whatever memory layout it has: the seed gradient is
            # its gradient, and every view's gradient is the corresponding view of it (every other such history instead reads the
            # base and its layout-sensitive views out through consumers, so that the first contribution comes from an operation)
            L = base
        else:
            L = add_readout(b, rng, max_terms=5)
        if L is None:
            continue
        seed = None
        if direct and L == base and rng.random() < 0.6:
            from mgverif.prog import enc_arr
            seed = enc_arr(B.rand_values(rng, np.shape(b.val(base)), 0.3, 1.5))     # an explicit (C-ordered) seed for a terminal of any layout
        b.prog.append({"k": "backward", "tgt": L, "seed": seed})
        epoch2_from = None
        if idx % 4 == 3:
            # a second graph epoch over survivors of the cleared graph (former views included): new views of them, consumers, backward
            r = epoch_boundary(b, rng, getattr(b, "last_readout", ()))
            if r is not None:
                start = len(b.prog)
                grow(b, rng, r[0][0], rng.randint(3, max(4, cfg["nstmts"][1] // 2)), inplace_w=0, setshape_w=0, view_w=6, read_w=3, nonconst_only=True)
                L2 = add_readout(b, rng, max_terms=5)
                if L2 is None:
                    continue
                b.prog.append({"k": "backward", "tgt": L2, "seed": None})
                epoch2_from = start
        views = [n for n in b.tensors() if n.startswith(("w", "v"))]
        post = []
        for v in views:
            if rng.random() < 0.2:
                post.append({"k": "clear", "tgt": v})
        if rng.random() < 0.4:
            # a second, unrelated backward: a fresh LEAF is back-propagated with another tensor's gradient array as the seed
            cands = [n for n in b.tensors() if b.meta[n]["nonconst"] and np.size(b.val(n))]
            if cands:
                z = rng.choice(cands)
                shp = np.shape(b.val(z))
                post.append({"k": "leaf", "out": "yleaf", "kind": "tensor", "dtype": "float64", "shape": list(shp),
                             "data": B.rand_values(rng, shp).ravel().tolist(), "constant": None, "layout": "C"})
                post.append({"k": "backward", "tgt": "yleaf", "seed": ["g", z], "optional": True})
        order = [n for n in b.tensors()]
        rng.shuffle(order)
        return {"prog": b.prog + post, "L": L, "read_order": order, "cseed": rng.randrange(1 << 30), "epoch2_from": epoch2_from}
    return None


def run_case(case):
    if case.get("kind") == "single":
        return run_single(case)
    prog = case["prog"]
    REG.reset()
    it = Interp("mg")
    try:
        for i, st in enumerate(prog):
            if st.get("optional"):
                z = st["seed"][1]
                if not (mgrun.is_tensor(it.env.get(z)) and it.env[z].grad is not None):
                    continue   # the tensor whose gradient was to seed the second backward has none
            it.exec(i, st)
    except Exception as e:
        return {"viol": [{"monitor": "mg-raised", "mech": f"mg-raises:{type(e).__name__}", "msg": f"{type(e).__name__}: {e}"}]}
    arrival = list(REG.arrival)
    sh = Shadow([st for st in prog if not st.get("optional")]).run_all()
    if sh.raised:
        return {"viol": [{"monitor": "harness", "mech": "shadow-raised", "msg": repr(sh.raised)}]}
    env = it.env
    viol, cnt, sets = [], {"view_checks": 0, "pair_checks": 0, "views_with_grad": 0}, {}
    grads = {}
    order = [n for n in case.get("read_order", []) if n in env] + [n for n in env if n not in case.get("read_order", [])]
    if case.get("epoch2_from") is not None:
        # only the tensors the second epoch uses are observed (what a tensor left over from the first epoch reports is outside the property)
        used = set()
        for st in prog[case["epoch2_from"]:]:
            used.update(mgrun.stmt_refs(st))
            if "out" in st:
                used.add(st["out"])
        order = [n for n in order if n in used]
        cnt["epoch2_cases"] = 1
    for n in order:                      # first read, in the generated order
        if mgrun.is_tensor(env[n]):
            grads[n] = env[n].grad
    for n in reversed(order):            # second read must return the same thing
        if mgrun.is_tensor(env[n]):
            g2 = env[n].grad
            g1 = grads[n]
            if (g1 is None) != (g2 is None) or (g1 is not None and not np.array_equal(g1, g2)):
                viol.append({"monitor": "reread", "mech": "grad-changes-on-reread", "msg": f"{n}.grad differs between two reads"})
    names = [n for n in grads if n in sh.owner and n in sh.it.env]
    for n in names:
        o = sh.owner[n]
        if o == n or o not in grads or not mgrun.is_tensor(env.get(o)) or sh.it.env[n].size == 0:
            continue
        t, bt = env[n], env[o]
        if t.constant or bt.constant:
            continue
        cnt["view_checks"] += 1
        if case.get("epoch2_from") is not None:
            cnt["epoch2_view_checks"] = cnt.get("epoch2_view_checks", 0) + 1
        gv, gb = grads[n], grads[o]
        kind = next((st["fn"] for st in prog if st.get("out") == n), "?")
        if (gv is None) != (gb is None):
            viol.append({"monitor": "availability", "mech": "view-grad-missing" if gv is None else "view-grad-without-base-grad",
                         "msg": f"{n} (view of {o} via {kind}): grad is {'None' if gv is None else 'set'} while {o}.grad is {'None' if gb is None else 'set'}"})
            continue
        if gv is None:
            continue
        cnt["views_with_grad"] += 1
        want = gb.ravel(order="C")[sh.idx[n]] if gb.shape == sh.it.env[o].shape else None
        if want is None or gv.shape != want.shape or not np.array_equal(gv, want):
            viol.append({"monitor": "value", "mech": "view-grad-value", "msg": f"{n}.grad != view chain ({kind}) applied to {o}.grad"})
        elif not np.shares_memory(gv, gb):
            viol.append({"monitor": "sharing", "mech": "view-grad-not-shared", "msg": f"{n}.grad does not share memory with {o}.grad (view via {kind})"})
        sets.setdefault("view_kinds", []).append(kind)
    tn = [n for n in names if grads[n] is not None and grads[n].size]
    for a in range(len(tn)):
        for b_ in range(a + 1, len(tn)):
            na, nb = tn[a], tn[b_]
            cnt["pair_checks"] += 1
            if np.shares_memory(grads[na], grads[nb]) and not np.shares_memory(env[na].data, env[nb].data):
                viol.append({"monitor": "alias", "mech": "grads-alias-unrelated-tensors",
                             "msg": f"{na}.grad and {nb}.grad share memory but the tensors do not"})
    # copies own fresh memory: the gradient a copy carries (whichever it carries: what a copy of a *view* carries is not stated and not judged) shares memory with no other
    # tensor's gradient, neither the original's nor - through it - any view's
    import copy as _copy
    crng = random.Random(case.get("cseed", 0))
    for n in crng.sample(tn, min(2, len(tn))):
        t = env[n]
        for how, c in (("copy()", t.copy()), ("copy.copy", _copy.copy(t)), ("copy(constant=True)", t.copy(constant=True))):
            cnt["copy_checks"] = cnt.get("copy_checks", 0) + 1
            gc_ = c.grad
            if np.shares_memory(c.data, t.data):
                viol.append({"monitor": "alias", "mech": "copy-shares-data", "msg": f"{n}.{how} shares its data with {n}"})
            elif gc_ is not None:
                for m in tn:
                    if np.shares_memory(gc_, grads[m]):
                        viol.append({"monitor": "alias", "mech": "grads-alias-unrelated-tensors:copy",
                                     "msg": f"the gradient of {n}.{how} shares memory with {m}.grad but the copy shares no memory with {m}"})
                        break
                cnt["copy_grads_seen"] = cnt.get("copy_grads_seen", 0) + 1
            del c, gc_
    first = {}
    for cls, i, lay, vid in arrival:
        first.setdefault(vid, (cls, lay))
    sets["first_contribution"] = sorted({f"{c}:{l}" for c, l in first.values()})
    sets["view_kinds"] = sorted(set(sets.get("view_kinds", [])))
    return {"viol": viol[:5], "counters": cnt, "sets": sets, "sig": mgrun.struct_sig(prog), "nontrivial": cnt["views_with_grad"] >= 2}

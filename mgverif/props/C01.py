"""C01 — backward() yields the exact total derivative of the recorded computation."""
import random
import numpy as np

from mgverif.hooks import REG
from mgverif.prog import Interp
from mgverif.oracle import Shadow, FD
from mgverif.gradcheck import check_grads
from mgverif import mgrun
from mgverif.gen.dag import gen_dag

PID = "C01"
LEVEL = "exploration"
RULE = ("seeded random functional DAGs over the op table (1-4 leaves from a broadcastable shape family, 2-10 nodes quick / up to 30 "
        "thorough, fan-out, repeated operands, constants, arrays, scalars, random seeds); each is executed on MyGrad and (a) every "
        "non-constant leaf and intermediate is compared with 5-point+Richardson finite differences of the longdouble NumPy program "
        "(owner-injection rule), (b) re-executed with commutative operands swapped and with statements in another topological order "
        "(gradients must agree to 1e-12*S), (c) gradient presence is compared with syntactic reachability. A case is non-trivial when "
        ">=3 calls lie upstream of L and >=1 directional derivative was judged; distinct = distinct structure hash "
        "(functions, spellings, wiring, option keys).")
ASSUMPTIONS = ["NumPy longdouble evaluation of the same statements is the reference semantics",
               "points where one-sided derivatives disagree (kinks) and ill-conditioned stencils are skipped and counted",
               "ndim<=3, sides<=3, tensors <=48 elements"]
TIERS = {"quick": {"cases": 4000, "nodes": (2, 10)}, "thorough": {"cases": 100000, "nodes": (3, 30)}}
FLOORS = {"quick": {"fd_ok": 12000, "meta_compared": 30000, "dep_checked": 20000},
          "thorough": {"fd_ok": 60000, "meta_compared": 150000, "dep_checked": 100000}}
SKIP_BUDGET = {"fd": ("fd_skipped", "fd_dirs", 0.15)}
TAU = 1e-8


def gen_case(rng, cfg, idx):
    for _ in range(20):
        c = gen_dag(rng, nodes=cfg["nodes"])
        if c is not None:
            c["cseed"] = rng.randrange(1 << 30)
            return c
    return None


def run_mg(prog):
    REG.reset()
    it = Interp("mg")
    it.run(prog, catch=False)
    grads = mgrun.snapshot_grads(it.env)
    return it, grads, REG.max_abs_grad


def run_case(case):
    prog = case["prog"]
    bw = len(prog) - 1
    rng = random.Random(case.get("cseed", 0))
    viol, cnt, sets = [], {}, {}
    it, grads, M = run_mg(prog)
    opclasses = set(REG.opclasses)
    sh = Shadow(prog).run_all()
    if sh.raised:
        return {"viol": [{"monitor": "harness", "msg": f"shadow raised {sh.raised}", "mech": "shadow-raised"}]}
    info = mgrun.analyze(prog)
    L = case["L"]
    up = mgrun.upstream(info, L)

    # forward sanity (cross-observation only; C03 judges forward parity)
    fwd_bad = 0
    for n, v in it.env.items():
        if mgrun.is_tensor(v) and n in sh.it.env:
            if not mgrun.values_close(v.data, sh.it.env[n], 1e-9, 1e-12):
                fwd_bad += 1
    cnt["cross_forward_mismatch"] = fwd_bad
    if fwd_bad:
        return {"viol": [], "counters": cnt, "skip": "forward-mismatch (judged by C03)"}

    # (c) gradient presence vs syntactic reachability
    fam_in_up = {}
    for n in sh.owner:
        o = sh.owner[n]
        if n in up and info.get(n, {}).get("nonconst"):
            fam_in_up[o] = True
    for n, v in it.env.items():
        if not mgrun.is_tensor(v) or n not in info:
            continue
        g = grads[n]
        infam = fam_in_up.get(sh.owner.get(n), False)
        if infam and n not in up:
            continue  # a view outside L's graph whose family is upstream: judged by C06, not here
        if n not in up and v.base is not None and any(w is v.base and m in up for m, w in it.env.items()):
            # the same, decided by MyGrad's own base pointer: whether ravel/reshape of a given tensor is a view depends on its memory
            # layout, which the NumPy shadow of a composite function (glu, ...) need not reproduce
            cnt["dep_view_by_layout"] = cnt.get("dep_view_by_layout", 0) + 1
            continue
        expect = bool(info[n]["nonconst"]) and n in up
        cnt["dep_checked"] = cnt.get("dep_checked", 0) + 1
        if expect and g is None:
            viol.append({"monitor": "dependency", "msg": f"{n} is upstream of L (or a view of such a tensor) but grad is None", "mech": "missing-grad"})
        elif not expect and g is not None:
            viol.append({"monitor": "dependency", "msg": f"{n} is not upstream of L / constant, but holds a gradient", "mech": "spurious-grad"})

    # (a) O-fd
    names = [n for n, v in it.env.items() if mgrun.is_tensor(v) and info.get(n, {}).get("nonconst") and v.dtype.kind == "f"
             and n in up]
    # leaves: full gradient for small ones; intermediates: one random direction
    leaves = [n for n in names if info[n].get("leaf")]
    inter = [n for n in names if not info[n].get("leaf")]
    fd = FD(prog)
    v1, c1 = check_grads(prog, (), sh, grads, bw, leaves, rng, tau=TAU, M=M, full_upto=4, nrand=2, fd=fd)
    v2, c2 = check_grads(prog, (), sh, grads, bw, inter, rng, tau=TAU, M=M, full_upto=1, nrand=1, fd=fd)
    viol += v1 + v2
    for c in (c1, c2):
        for k, v in c.items():
            cnt[k] = cnt.get(k, 0) + v
    cnt["fd_skipped"] = cnt.get("fd_kink", 0) + cnt.get("fd_illcond", 0)

    # (b) O-meta: operand swap and statement reordering
    for variant, (p2, changed) in (("swap", mgrun.swap_commutative(prog, rng)), ("reorder", mgrun.reorder_topological(prog, rng))):
        if not changed:
            continue
        try:
            it2, grads2, M2 = run_mg(p2)
        except Exception as e:
            viol.append({"monitor": "O-meta", "msg": f"{variant} variant raised {type(e).__name__}: {e}", "mech": f"meta-{variant}-raised"})
            continue
        S = max(1.0, M, M2)
        for n, g in grads.items():
            g2 = grads2.get(n)
            cnt["meta_compared"] = cnt.get("meta_compared", 0) + 1
            if (g is None) != (g2 is None):
                viol.append({"monitor": "O-meta", "msg": f"{variant}: presence of {n}.grad differs", "mech": f"meta-{variant}"})
            elif g is not None and not mgrun.values_close(g, g2, 0, 1e-12 * S):
                viol.append({"monitor": "O-meta", "msg": f"{variant}: {n}.grad differs: {np.ravel(g)[:4]} vs {np.ravel(g2)[:4]}", "mech": f"meta-{variant}"})
        sets.setdefault("variants", []).append(variant)

    ncalls_up = sum(1 for n in up if not info[n].get("leaf"))
    fanout = sum(1 for n in up if sum(1 for m in up if n in info[m]["parents"]) >= 2)
    sets["opclasses"] = sorted(opclasses)
    sets["fns"] = sorted({info[n]["fn"] for n in up if "fn" in info[n]})
    cnt["fanout_nodes"] = fanout
    cnt["calls_upstream"] = ncalls_up
    return {"viol": viol, "counters": cnt, "sets": sets, "sig": mgrun.struct_sig(prog),
            "nontrivial": ncalls_up >= 3 and cnt.get("fd_dirs", 0) >= 1}


def classify(v, case):
    return v.get("mech") or v["monitor"]

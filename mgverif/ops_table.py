"""One spec per public differentiable entry point of MyGrad.

Each spec names the MyGrad callable, an independent NumPy reference (`ref`, must work on
float64 *and* longdouble arrays), the NumPy namesake reachable through __array_ufunc__ /
__array_function__ (`npf`), the Tensor method (`meth`), the Python operator (`opr`) and a
*domain predicate* `dom(*np_args, **kw)` that says whether operands lie safely in the
interior of the differentiable domain (away from poles and kinks).
"""
import operator as _op
import numpy as np
import mygrad as mg
from mygrad import nnet as _nn
from mygrad.nnet import activations as _act

SPECS = {}
DOMAIN_CHECKS = True   # generators for forward-parity workloads switch domain predicates off


class Spec:
    def __init__(self, name, kind, mgf, ref, npf=None, meth=None, opr=None, dom=None, view=False, cls=None, nargs=1):
        self.name, self.kind, self.mg, self.ref, self.npf = name, kind, mgf, ref, npf
        self.meth, self.opr, self.dom, self.view, self.cls, self.nargs = meth, opr, dom, view, cls, nargs
        SPECS[name] = self

    def in_domain(self, *a, **k):
        if self.dom is None or not DOMAIN_CHECKS:
            return True
        try:
            with np.errstate(all="ignore"):
                return bool(self.dom(*a, **k))
        except Exception:
            return False


_OPS = {"+": _op.add, "-": _op.sub, "*": _op.mul, "/": _op.truediv, "**": _op.pow, "@": _op.matmul,
        "neg": _op.neg, "pos": _op.pos, "abs": abs}
_IOPS = {"+": _op.iadd, "-": _op.isub, "*": _op.imul, "/": _op.itruediv, "**": _op.ipow}


def apply_operator(sym, *args):
    return _OPS[sym](*args)


def apply_augmented(sym, tgt, val):
    return _IOPS[sym](tgt, val)


def F(x):
    return np.asarray(x)


def _allfin(*a):
    return all(np.all(np.isfinite(np.asarray(x, dtype=float))) for x in a)


def rng_(lo, hi):
    return lambda x, *a, **k: np.all(F(x) > lo) and np.all(F(x) < hi)


def away(eps, lim=50.0):
    return lambda x, *a, **k: np.all(np.abs(F(x)) > eps) and np.all(np.abs(F(x)) < lim)


def absgt(v, lim=50.0):
    return away(v, lim)


# --------------------------------------------------------------------------------------- unary ufuncs
_U1 = {
    # name: (domain predicate, operator)
    "absolute": (away(0.05), None),
    "sqrt": (rng_(0.15, 50), None),
    "cbrt": (away(0.15), None),
    "negative": (None, "neg"),
    "positive": (None, "pos"),
    "reciprocal": (away(0.25), None),
    "square": (rng_(-30, 30), None),
    "exp": (rng_(-8, 6), None),
    "exp2": (rng_(-8, 8), None),
    "expm1": (rng_(-8, 6), None),
    "log": (rng_(0.15, 50), None),
    "log2": (rng_(0.15, 50), None),
    "log10": (rng_(0.15, 50), None),
    "log1p": (rng_(-0.75, 50), None),
    "sin": (rng_(-20, 20), None),
    "cos": (rng_(-20, 20), None),
    "tan": (lambda x: np.all(np.abs(np.cos(F(x))) > 0.3) and np.all(np.abs(F(x)) < 20), None),
    "arcsin": (rng_(-0.85, 0.85), None),
    "arccos": (rng_(-0.85, 0.85), None),
    "arctan": (rng_(-30, 30), None),
    "sinh": (rng_(-6, 6), None),
    "cosh": (rng_(-6, 6), None),
    "tanh": (rng_(-6, 6), None),
    "arcsinh": (rng_(-30, 30), None),
    "arccosh": (rng_(1.15, 30), None),
    "arctanh": (rng_(-0.85, 0.85), None),
}
for _n, (_d, _o) in _U1.items():
    Spec(_n, "u1", getattr(mg, _n), getattr(np, _n), npf=getattr(np, _n), opr=_o, dom=_d)
Spec("abs", "u1", mg.abs, np.abs, npf=np.abs, dom=away(0.05))

# --------------------------------------------------------------------------------------- mygrad-only unary
_SELU_A = np.longdouble("1.6732632423543772848170429916717")
_SELU_S = np.longdouble("1.0507009873554804934193349852946")


def _selu(x):
    x = F(x)
    a = _SELU_A.astype(x.dtype) if x.dtype == np.longdouble else float(_SELU_A)
    s = _SELU_S.astype(x.dtype) if x.dtype == np.longdouble else float(_SELU_S)
    return s * np.where(x < 0, a * (np.exp(x) - 1), x)


def _sinc(x):
    x = F(x)
    pi = np.arccos(x.dtype.type(-1)) if x.dtype.kind == "f" else np.pi
    y = pi * x
    with np.errstate(all="ignore"):
        return np.where(y == 0, x.dtype.type(1) if x.dtype.kind == "f" else 1.0, np.sin(y) / np.where(y == 0, 1, y))


_M1 = {
    "sinc": (mg.sinc, _sinc, away(0.05, 20)),
    "cot": (mg.cot, lambda x: 1 / np.tan(F(x)), lambda x: np.all(np.abs(np.sin(F(x))) > 0.3) and np.all(np.abs(np.cos(F(x))) > 0.05) and np.all(np.abs(F(x)) < 20)),
    "csc": (mg.csc, lambda x: 1 / np.sin(F(x)), lambda x: np.all(np.abs(np.sin(F(x))) > 0.3) and np.all(np.abs(F(x)) < 20)),
    "sec": (mg.sec, lambda x: 1 / np.cos(F(x)), lambda x: np.all(np.abs(np.cos(F(x))) > 0.3) and np.all(np.abs(F(x)) < 20)),
    "arccot": (mg.arccot, lambda x: np.arctan(1 / F(x)), away(0.25)),
    "arccsc": (mg.arccsc, lambda x: np.arcsin(1 / F(x)), away(1.25, 30)),
    "arcsec": (mg.arcsec, lambda x: np.arccos(1 / F(x)), away(1.25, 30)),
    "coth": (mg.coth, lambda x: 1 / np.tanh(F(x)), away(0.25, 6)),
    "csch": (mg.csch, lambda x: 1 / np.sinh(F(x)), away(0.25, 6)),
    "sech": (mg.sech, lambda x: 1 / np.cosh(F(x)), rng_(-6, 6)),
    "arccoth": (mg.arccoth, lambda x: np.arctanh(1 / F(x)), away(1.25, 30)),
    "arccsch": (mg.arccsch, lambda x: np.arcsinh(1 / F(x)), away(0.25, 30)),
    "relu": (_act.relu, lambda x: np.where(F(x) > 0, F(x), 0 * F(x)), away(0.05)),
    "sigmoid": (_act.sigmoid, lambda x: 1 / (1 + np.exp(-F(x))), rng_(-8, 8)),
    "selu": (_act.selu, _selu, away(0.05, 8)),
    "soft_sign": (_act.soft_sign, lambda x: F(x) / (1 + np.abs(F(x))), away(0.05)),
    "nnet_tanh": (_act.tanh, np.tanh, rng_(-6, 6)),
}
for _n, (_m, _r, _d) in _M1.items():
    Spec(_n, "m1", _m, _r, dom=_d)


def _elu(x, alpha):
    x = F(x)
    return np.where(x < 0, alpha * (np.exp(x) - 1), x)


def _leaky(x, slope):
    x = F(x)
    return np.where(x < 0, slope * x, x)


def _hard_tanh(x, lower_bound=-1, upper_bound=1):
    return np.clip(F(x), lower_bound, upper_bound)


def _dom_hard_tanh(x, lower_bound=-1, upper_bound=1):
    x = F(x)
    return np.all(np.abs(x - lower_bound) > 0.05) and np.all(np.abs(x - upper_bound) > 0.05)


Spec("elu", "m1p", _act.elu, _elu, dom=away(0.05, 8))
Spec("leaky_relu", "m1p", _act.leaky_relu, _leaky, dom=away(0.05))
Spec("hard_tanh", "m1p", _act.hard_tanh, _hard_tanh, dom=_dom_hard_tanh)


def _glu(x, axis=-1):
    x = F(x)
    n = x.shape[axis] // 2
    a = np.take(x, np.arange(0, n), axis=axis)
    b = np.take(x, np.arange(n, 2 * n), axis=axis)
    return a * (1 / (1 + np.exp(-b)))


Spec("glu", "glu", _act.glu, _glu, dom=rng_(-8, 8))


def _softmax(x, axis=-1):
    x = F(x)
    e = np.exp(x - np.max(x, axis=axis, keepdims=True))
    return e / np.sum(e, axis=axis, keepdims=True)


def _logsoftmax(x, axis=-1):
    x = F(x)
    m = np.max(x, axis=axis, keepdims=True)
    return x - m - np.log(np.sum(np.exp(x - m), axis=axis, keepdims=True))


Spec("softmax", "softmax", _act.softmax, _softmax, dom=rng_(-8, 8))
Spec("logsoftmax", "softmax", _act.logsoftmax, _logsoftmax, dom=rng_(-8, 8))


# --------------------------------------------------------------------------------------- binary ufuncs
def _bgap(eps):
    def d(x, y, *a, **k):
        x, y = np.broadcast_arrays(F(x), F(y))
        return np.all(np.abs(x - y) > eps)
    return d


def _dom_div(x, y, *a, **k):
    return np.all(np.abs(F(y)) > 0.25) and np.all(np.abs(F(x)) < 1e3) and np.all(np.abs(F(y)) < 1e3)


def _dom_pow(x, y, *a, **k):
    x, y = F(x), F(y)
    return np.all(x > 0.3) and np.all(x < 3) and np.all(np.abs(y) < 3.5)


def _dom_atan2(x, y, *a, **k):
    x, y = np.broadcast_arrays(F(x), F(y))
    return np.all(x * x + y * y > 0.1) and np.all(np.abs(x) < 50) and np.all(np.abs(y) < 50)


_U2 = {
    "add": ("+", None), "subtract": ("-", None), "multiply": ("*", None),
    "divide": ("/", _dom_div), "power": ("**", _dom_pow),
    "logaddexp": (None, lambda x, y, *a, **k: np.all(np.abs(F(x)) < 20) and np.all(np.abs(F(y)) < 20)),
    "logaddexp2": (None, lambda x, y, *a, **k: np.all(np.abs(F(x)) < 20) and np.all(np.abs(F(y)) < 20)),
    "arctan2": (None, _dom_atan2),
    "maximum": (None, _bgap(0.05)), "minimum": (None, _bgap(0.05)),
}
for _n, (_o, _d) in _U2.items():
    Spec(_n, "u2", getattr(mg, _n), getattr(np, _n), npf=getattr(np, _n), opr=_o, dom=_d, nargs=2)
Spec("true_divide", "u2", mg.true_divide, np.true_divide, npf=np.true_divide, dom=_dom_div, nargs=2)
Spec("matmul", "matmul", mg.matmul, np.matmul, npf=np.matmul, opr="@", nargs=2)


# --------------------------------------------------------------------------------------- n-ary
def _addseq(*xs):
    out = F(xs[0])
    for x in xs[1:]:
        out = out + F(x)
    return out


def _mulseq(*xs):
    out = F(xs[0])
    for x in xs[1:]:
        out = out * F(x)
    return out


Spec("add_sequence", "seq", mg.add_sequence, _addseq)
Spec("multiply_sequence", "seq", mg.multiply_sequence, _mulseq)


def _multi_matmul(ts):
    out = F(ts[0])
    for t in ts[1:]:
        out = out @ F(t)
    return out


Spec("multi_matmul", "multi_matmul", mg.multi_matmul, _multi_matmul)


# --------------------------------------------------------------------------------------- reductions
def _lane_gap(x, axis=None, **k):
    """top-2 (and bottom-2) values of every lane differ by > 0.05 (max/min differentiable)."""
    x = F(x)
    if x.size == 0:
        return False
    if axis is None:
        v = np.sort(x.ravel())
        return v.size < 2 or (v[-1] - v[-2] > 0.05 and v[1] - v[0] > 0.05)
    ax = axis if isinstance(axis, tuple) else (axis,)
    ax = tuple(a % x.ndim for a in ax) if x.ndim else ()
    if not ax:
        return True
    keep = [i for i in range(x.ndim) if i not in ax]
    y = np.transpose(x, keep + list(ax)).reshape(tuple(x.shape[i] for i in keep) + (-1,))
    v = np.sort(y, axis=-1)
    if v.shape[-1] < 2:
        return True
    return bool(np.all(v[..., -1] - v[..., -2] > 0.05) and np.all(v[..., 1] - v[..., 0] > 0.05))


def _dom_var(x, axis=None, ddof=0, **k):
    x = F(x)
    if x.size == 0:
        return False
    n = x.size if axis is None else int(np.prod([x.shape[a] for a in (axis if isinstance(axis, tuple) else (axis,))])) if x.ndim else 1
    return n - ddof > 0


def _dom_std(x, axis=None, ddof=0, **k):
    if not _dom_var(x, axis=axis, ddof=ddof):
        return False
    return bool(np.all(np.var(F(x), axis=axis) > 0.02))


for _n, _d in {"sum": None, "mean": lambda x, **k: F(x).size > 0, "prod": rng_(-4, 4), "max": _lane_gap, "min": _lane_gap,
               "var": _dom_var, "std": _dom_std}.items():
    Spec(_n, "reduce", getattr(mg, _n), getattr(np, _n), npf=getattr(np, _n), meth=_n, dom=_d)
Spec("amax", "reduce", mg.amax, np.amax, npf=np.amax, dom=_lane_gap)
Spec("amin", "reduce", mg.amin, np.amin, npf=np.amin, dom=_lane_gap)
Spec("cumsum", "cum", mg.cumsum, np.cumsum, npf=np.cumsum, meth="cumsum")
Spec("cumprod", "cum", mg.cumprod, np.cumprod, npf=np.cumprod, meth="cumprod", dom=rng_(-3, 3))


# --------------------------------------------------------------------------------------- linalg
def _norm_ref(x, ord=None, axis=None, keepdims=False, **k):
    """vector p-norm written out (np.linalg.norm refuses longdouble for some ords)."""
    x = F(x)
    ax = np.abs(x)
    if ord is None or ord == 2:
        return np.sqrt(np.sum(x * x, axis=axis, keepdims=keepdims))
    if ord == np.inf:
        return np.max(ax, axis=axis, keepdims=keepdims)
    if ord == -np.inf:
        return np.min(ax, axis=axis, keepdims=keepdims)
    if ord == 0:
        return np.sum(x != 0, axis=axis, keepdims=keepdims).astype(x.dtype)
    if ord == 1:
        return np.sum(ax, axis=axis, keepdims=keepdims)
    p = x.dtype.type(ord)
    return np.sum(ax ** p, axis=axis, keepdims=keepdims) ** (1 / p)


def _dom_norm(x, ord=None, axis=None, **k):
    x = F(x)
    if x.size == 0 or not np.all(np.abs(x) > 0.05):
        return False
    if ord in (np.inf, -np.inf):
        return _lane_gap(np.abs(x), axis=axis)
    return np.all(np.abs(x) < 20)


Spec("norm", "norm", mg.linalg.norm, _norm_ref, npf=np.linalg.norm, dom=_dom_norm)
Spec("einsum", "einsum", mg.einsum, np.einsum, npf=np.einsum)


# --------------------------------------------------------------------------------------- indexing
def _getitem(x, ix):
    return x[ix]


Spec("getitem", "getitem", _getitem, _getitem, view=True)


def _dom_where(c, x, y, **k):
    return True


Spec("where", "where", mg.where, np.where, npf=np.where)


def _dom_clip(a, lo, hi, **k):
    a = F(a)
    ok = True
    if lo is not None:
        ok = ok and np.all(np.abs(a - F(lo)) > 0.05)
    if hi is not None:
        ok = ok and np.all(np.abs(a - F(hi)) > 0.05)
    if lo is not None and hi is not None:
        ok = ok and np.all(F(lo) < F(hi))
    return ok


Spec("clip", "clip", mg.clip, np.clip, npf=np.clip, meth="clip", dom=_dom_clip)

# --------------------------------------------------------------------------------------- shape / transpose-like
Spec("reshape", "reshape", mg.reshape, np.reshape, npf=np.reshape, meth="reshape", view=True)
Spec("squeeze", "squeeze", mg.squeeze, np.squeeze, npf=np.squeeze, meth="squeeze", view=True)
Spec("ravel", "ravel", mg.ravel, np.ravel, npf=np.ravel, meth="ravel", view=True)
Spec("flatten", "flatten", lambda x, **k: x.flatten(**k), lambda x: F(x).flatten(), meth="flatten")
Spec("expand_dims", "expand_dims", mg.expand_dims, np.expand_dims, npf=np.expand_dims, view=True)
Spec("broadcast_to", "broadcast_to", mg.broadcast_to, np.broadcast_to, npf=np.broadcast_to, view=True)
Spec("atleast_1d", "atleast", mg.atleast_1d, np.atleast_1d, npf=np.atleast_1d, view=True)
Spec("atleast_2d", "atleast", mg.atleast_2d, np.atleast_2d, npf=np.atleast_2d, view=True)
Spec("atleast_3d", "atleast", mg.atleast_3d, np.atleast_3d, npf=np.atleast_3d, view=True)
Spec("transpose", "transpose", mg.transpose, np.transpose, npf=np.transpose, meth="transpose", view=True)
Spec("T", "T", lambda x: x.T, lambda x: F(x).T, view=True)
Spec("moveaxis", "moveaxis", mg.moveaxis, np.moveaxis, npf=np.moveaxis, meth="moveaxis", view=True)
Spec("swapaxes", "swapaxes", mg.swapaxes, np.swapaxes, npf=np.swapaxes, meth="swapaxes", view=True)
Spec("roll", "roll", mg.roll, np.roll, npf=np.roll)
Spec("concatenate", "join", mg.concatenate, np.concatenate, npf=np.concatenate)
Spec("stack", "join", mg.stack, np.stack, npf=np.stack)
Spec("repeat", "repeat", mg.repeat, np.repeat, npf=np.repeat)

UNARY_SMOOTH = sorted(list(_U1) + list(_M1))
BINARY = sorted(_U2)
COMMUTATIVE = {"add", "multiply", "maximum", "minimum", "logaddexp", "logaddexp2", "add_sequence", "multiply_sequence"}
VIEW_FNS = {n for n, s in SPECS.items() if s.view}

# --------------------------------------------------------------------------------------- nnet layers and losses (references: refs_nnet)
from mgverif import refs_nnet as _R
from mygrad.nnet import layers as _lay, losses as _loss


def _conv_ref(x, w, stride=1, padding=0, dilation=1):
    return _R.conv_ref(F(x), F(w), stride, padding, dilation)


def _pool_gap(x, pool, stride):
    x = F(x)
    win = _R.swv_ref(x, tuple(pool), stride, None)
    k = len(tuple(pool))
    flat = win.reshape(win.shape[: win.ndim - k] + (-1,))
    if flat.shape[-1] < 2:
        return True
    v = np.sort(flat, axis=-1)
    return bool(np.all(v[..., -1] - v[..., -2] > 0.05))


Spec("conv_nd", "conv", _lay.conv_nd, _conv_ref)
Spec("max_pool", "pool", _lay.max_pool, lambda x, pool, stride: _R.max_pool_ref(F(x), tuple(pool), stride), dom=_pool_gap)
Spec("batchnorm", "batchnorm", _lay.batchnorm, lambda x, gamma=None, beta=None, eps=1e-8: _R.batchnorm_ref(F(x), None if gamma is None else F(gamma),
                                                                                                      None if beta is None else F(beta), eps))


def _gru_mg(*a, **k):
    from mygrad.nnet.layers.gru import gru
    return gru(*a, **k)


Spec("gru", "gru", _gru_mg, lambda *a, s0=None, **k: _R.gru_ref(*[F(q) for q in a], s0=None if s0 is None else F(s0)))


def _dom_hinge(x, y, hinge=1.0, **k):
    x = F(x)
    y = np.asarray(y)
    m = x - x[np.arange(len(y)), y][:, None] + hinge
    m[np.arange(len(y)), y] = 1.0
    return bool(np.all(np.abs(m) > 0.05))


def _dom_margin(x1, x2, y, margin, **k):
    x1, x2 = F(x1), F(x2)
    yy = F(y)
    yy = yy[:, None] if (yy.ndim == 1 and x1.ndim == 2) else yy
    return bool(np.all(np.abs(margin - yy * (x1 - x2)) > 0.05))


def _dom_probs(p, *a, **k):
    p = F(p)
    return bool(np.all(p > 0.05) and np.all(p < 0.95))


Spec("softmax_crossentropy", "loss", _loss.softmax_crossentropy, lambda x, y: _R.softmax_crossentropy_ref(F(x), np.asarray(y)))
Spec("negative_log_likelihood", "loss", _loss.negative_log_likelihood,
     lambda x, y, weights=None: _R.negative_log_likelihood_ref(F(x), np.asarray(y), None if weights is None else F(weights)))
Spec("multiclass_hinge", "loss", _loss.multiclass_hinge, lambda x, y, hinge=1.0: _R.multiclass_hinge_ref(F(x), np.asarray(y), hinge), dom=_dom_hinge)
Spec("margin_ranking_loss", "loss", _loss.margin_ranking_loss, lambda x1, x2, y, margin: _R.margin_ranking_loss_ref(F(x1), F(x2), F(y), margin),
     dom=_dom_margin)
Spec("focal_loss", "loss", _loss.focal_loss, lambda p, y, alpha=1, gamma=0: _R.focal_loss_ref(F(p), np.asarray(y), alpha, gamma), dom=_dom_probs)
Spec("softmax_focal_loss", "loss", _loss.softmax_focal_loss, lambda x, y, alpha=1, gamma=0: _R.softmax_focal_loss_ref(F(x), np.asarray(y), alpha, gamma))
LAYER_FNS = ["conv_nd", "max_pool", "batchnorm", "gru"]
LOSS_FNS = ["softmax_crossentropy", "negative_log_likelihood", "multiclass_hinge", "margin_ranking_loss", "focal_loss", "softmax_focal_loss"]

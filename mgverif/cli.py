"""Driver: shards a property's workload over subprocesses, merges verdicts, writes evidence.

  python -m mgverif.cli <ID> [--tier quick|thorough] [--replay PATH] [--cases N] [--shards K]
  python -m mgverif.cli <ID> --worker <shard> <nshards> <outfile> ...   (internal)
"""
import argparse
import hashlib
import importlib
import json
import os
import random
import signal
import subprocess
import sys
import time
import traceback

HERE = os.path.dirname(os.path.dirname(os.path.abspath(__file__)))
OUT = os.path.join(HERE, "out")
MAX_VIOL_KEPT = 12


def load_prop(pid):
    return importlib.import_module(f"mgverif.props.{pid}")


def case_seed(seed, pid, idx):
    h = hashlib.sha256(f"{seed}:{pid}:{idx}".encode()).digest()
    return int.from_bytes(h[:8], "big")


class CaseTimeout(Exception):
    pass


def _alarm(signum, frame):
    raise CaseTimeout()


def jdefault(o):
    import numpy as np
    if isinstance(o, np.ndarray):
        return o.tolist()
    if isinstance(o, (np.integer,)):
        return int(o)
    if isinstance(o, (np.floating,)):
        return float(o)
    if isinstance(o, (np.bool_,)):
        return bool(o)
    if isinstance(o, (set, frozenset, tuple)):
        return list(o)
    return repr(o)


def run_one(prop, case):
    """Run one case with the per-case watchdog; unexpected exceptions become violations."""
    t0 = time.time()
    limit = int(getattr(prop, "CASE_TIMEOUT_S", 120))
    signal.signal(signal.SIGALRM, _alarm)
    signal.alarm(limit)
    try:
        res = prop.run_case(case)
    except CaseTimeout:
        res = {"viol": [], "timeout": True}
    except Exception as e:  # the harness or the library failed in a way the property module did not expect
        tb = traceback.format_exc(limit=12)
        res = {"viol": [{"monitor": "unexpected-exception", "msg": f"{type(e).__name__}: {e}", "tb": tb}]}
    finally:
        signal.alarm(0)
    res.setdefault("viol", [])
    res.setdefault("counters", {})
    res.setdefault("sets", {})
    res["wall"] = time.time() - t0
    return res


def worker(args):
    from mgverif import hooks
    hooks.install()
    prop = load_prop(args.pid)
    cfg = dict(prop.TIERS[args.tier])
    if args.cases:
        cfg["cases"] = args.cases
    cfg["tier"] = args.tier
    seed = args.seed
    agg = {"evaluations": 0, "sigs": {}, "counters": {}, "sets": {}, "viol": [], "nviol": 0,
           "timeouts": 0, "skips": {}, "samples": [], "slowest": 0.0}
    if hasattr(prop, "enumerate_cases"):
        it = ((i, c) for i, c in enumerate(prop.enumerate_cases(cfg, seed)) if i % args.nshards == args.shard)
    else:
        def gen():
            for i in range(args.shard, cfg["cases"], args.nshards):
                rng = random.Random(case_seed(seed, args.pid, i))
                try:
                    c = prop.gen_case(rng, cfg, i)
                except Exception as e:   # a generator bug must not take the shard down: counted, and too many make the run inconclusive
                    agg["gen_errors"] = agg.get("gen_errors", 0) + 1
                    agg.setdefault("gen_error_samples", []).append(f"case {i}: {type(e).__name__}: {e}"[:200])
                    c = None
                yield i, c
        it = gen()
    if args.shard == 0 and hasattr(prop, "witness_cases"):
        # the recorded witness of every known finding of this property is replayed on every run (first shard), so that the
        # KNOWN-FINDING line is printed deterministically while the defect exists - and disappears when it is repaired
        import itertools
        it = itertools.chain(((-1 - k, c) for k, c in enumerate(prop.witness_cases())), it)
    tstart = time.time()
    budget = float(cfg.get("shard_budget_s", 0))
    for i, case in it:
        if case is None:
            continue
        if budget and time.time() - tstart > budget:
            agg["budget_stop_at"] = i
            break
        res = run_one(prop, case)
        agg["evaluations"] += 1
        agg["slowest"] = max(agg["slowest"], res["wall"])
        if res.get("timeout"):
            agg["timeouts"] += 1
            continue
        if res.get("skip"):
            agg["skips"][res["skip"]] = agg["skips"].get(res["skip"], 0) + 1
        for k, v in res["counters"].items():
            agg["counters"][k] = agg["counters"].get(k, 0) + v
        for k, vs in res["sets"].items():
            d = agg["sets"].setdefault(k, {})
            for v in vs:
                v = v if isinstance(v, str) else json.dumps(v, default=jdefault)
                d[v] = d.get(v, 0) + 1
        if res.get("nontrivial", True) and not res.get("skip"):
            sig = res.get("sig") or hashlib.sha1(json.dumps(case, sort_keys=True, default=jdefault).encode()).hexdigest()
            agg["sigs"][sig] = agg["sigs"].get(sig, 0) + 1
        if len(agg["samples"]) < 2 and not res.get("skip"):
            agg["samples"].append(case)
        if res["viol"]:
            agg["nviol"] += len(res["viol"])
            for v in res["viol"]:
                v["mech"] = prop.classify(v, case) if hasattr(prop, "classify") else v.get("mech") or v["monitor"]
            mechs_kept = {}
            for kv in agg["viol"]:
                for v in kv["viol"]:
                    mechs_kept[v["mech"]] = mechs_kept.get(v["mech"], 0) + 1
            new = [v for v in res["viol"] if mechs_kept.get(v["mech"], 0) < 3]
            cnt = agg.setdefault("mech_counts", {})
            for v in res["viol"]:
                cnt[v["mech"]] = cnt.get(v["mech"], 0) + 1
            if new and len(agg["viol"]) < MAX_VIOL_KEPT * 4:
                agg["viol"].append({"idx": i, "case": case, "viol": res["viol"][:6]})
    agg["reach"] = dict(hooks.REG.reach)
    with open(args.outfile, "w") as f:
        json.dump(agg, f, default=jdefault)


def shrink(prop, case):
    """Greedy statement deletion keeping the first violation's mechanism."""
    from mgverif.mgrun import stmt_refs

    def mechs(c):
        r = run_one(prop, c)
        return {(prop.classify(v, c) if hasattr(prop, "classify") else v.get("mech") or v["monitor"]) for v in r["viol"]}

    target = mechs(case)
    if not target:
        return case
    prog = list(case["prog"])
    changed = True
    while changed:
        changed = False
        for i in range(len(prog) - 1, -1, -1):
            st = prog[i]
            out = st.get("out")
            if out is not None and any(out in stmt_refs(s2) for s2 in prog[i + 1:]):
                continue
            cand = prog[:i] + prog[i + 1:]
            c2 = dict(case)
            c2["prog"] = cand
            try:
                m = mechs(c2)
            except Exception:
                continue
            if m & target:
                prog = cand
                changed = True
    c2 = dict(case)
    c2["prog"] = prog
    return c2


def load_known():
    p = os.path.join(HERE, "known_findings.json")
    if not os.path.exists(p):
        return {}
    d = json.load(open(p))
    out = {}
    for f in d.get("findings", []):
        if f.get("status", "known") == "known":
            out.setdefault(f["property"], {})[f["mechanism"]] = f
    return out


def validate_evidence(path):
    schema = "/root/.vp/EVIDENCE.schema.json"
    vt = "/opt/veriftools/pyvenv/bin/python"
    if not (os.path.exists(schema) and os.path.exists(vt)):
        return True, "schema validator not available; structural self-check only"
    r = subprocess.run([vt, "-c", "import json,sys,jsonschema; jsonschema.validate(json.load(open(sys.argv[1])), json.load(open(sys.argv[2])))",
                        path, schema], capture_output=True, text=True)
    return r.returncode == 0, r.stderr[-500:]


def trunc(o, n=1500):
    s = json.dumps(o, default=jdefault)
    if len(s) <= n:
        return o
    return {"truncated_json": s[:n] + "..."}


def main():
    ap = argparse.ArgumentParser()
    ap.add_argument("pid")
    ap.add_argument("--tier", default=os.environ.get("VERIF_TIER", "quick"))
    ap.add_argument("--replay")
    ap.add_argument("--cases", type=int, default=0)
    ap.add_argument("--shards", type=int, default=0)
    ap.add_argument("--seed", type=int, default=int(os.environ.get("VERIF_SEED", "0") or 0))
    ap.add_argument("--worker", nargs=3, metavar=("SHARD", "NSHARDS", "OUTFILE"))
    ap.add_argument("--no-evidence", action="store_true")
    ap.add_argument("--shrink", action="store_true")
    args = ap.parse_args()
    if args.tier not in ("quick", "thorough"):
        args.tier = "quick"
    if args.worker:
        args.shard, args.nshards, args.outfile = int(args.worker[0]), int(args.worker[1]), args.worker[2]
        return worker(args)

    pid = args.pid
    prop = load_prop(pid)
    known = load_known().get(pid, {})

    if args.replay:
        from mgverif import hooks
        hooks.install()
        blob = json.load(open(args.replay))
        case = blob["case"] if "case" in blob else blob
        if args.shrink and "prog" in case:
            case = shrink(prop, case)
            print("shrunk program:")
            for i, st in enumerate(case["prog"]):
                print("  ", i, json.dumps(st))
        res = run_one(prop, case)
        bad = 0
        for v in res["viol"]:
            mech = prop.classify(v, case) if hasattr(prop, "classify") else v.get("mech") or v["monitor"]
            if mech in known:
                print(f"KNOWN-FINDING: property={pid} {mech}: {v['msg'][:300]}")
            else:
                bad += 1
                print(f"VIOLATION property={pid} replay={args.replay}")
                print(f"  monitor={v['monitor']} mech={mech}: {v['msg'][:1200]}")
                if v.get("tb"):
                    print(v["tb"])
        if not res["viol"]:
            print(f"replay: no violation (counters={res.get('counters')}, skip={res.get('skip')})")
        return 1 if bad else 0

    t0 = time.time()
    nsh = args.shards or int(prop.TIERS[args.tier].get("shards", min(16, os.cpu_count() or 4)))
    # (a directory of its own per run: two runs of the same check at the same time must not remove each other's shard files)
    outdir = os.path.join(OUT, pid, args.tier, f"run{os.getpid()}")
    os.makedirs(outdir, exist_ok=True)
    procs = []
    for s in range(nsh):
        of = os.path.join(outdir, f"shard_{s}.json")
        if os.path.exists(of):
            os.remove(of)
        cmd = [sys.executable, "-B", "-m", "mgverif.cli", pid, "--tier", args.tier, "--seed", str(args.seed),
               "--worker", str(s), str(nsh), of]
        if args.cases:
            cmd += ["--cases", str(args.cases)]
        env = dict(os.environ)
        env.update(getattr(prop, "ENV", {}))
        log = open(os.path.join(outdir, f"shard_{s}.log"), "w")
        procs.append((s, of, subprocess.Popen(cmd, cwd=HERE, stdout=log, stderr=subprocess.STDOUT, env=env), log))
    wd = float(prop.TIERS[args.tier].get("watchdog_s", 3600 if args.tier == "quick" else 6 * 3600))
    dead = []
    for s, of, p, log in procs:
        try:
            p.wait(timeout=max(5.0, wd - (time.time() - t0)))
        except subprocess.TimeoutExpired:
            p.kill()
            dead.append((s, "watchdog"))
        log.close()
        if p.returncode not in (0, None) and (s, "watchdog") not in dead:
            dead.append((s, f"exit {p.returncode}"))

    agg = {"evaluations": 0, "sigs": {}, "counters": {}, "sets": {}, "viol": [], "nviol": 0, "timeouts": 0,
           "skips": {}, "samples": [], "reach": {}, "mech_counts": {}, "slowest": 0.0}
    for s, of, p, log in procs:
        if not os.path.exists(of):
            if not any(d[0] == s for d in dead):
                dead.append((s, "no output"))
            continue
        a = json.load(open(of))
        agg["evaluations"] += a["evaluations"]
        agg["gen_errors"] = agg.get("gen_errors", 0) + a.get("gen_errors", 0)
        agg.setdefault("gen_error_samples", []).extend(a.get("gen_error_samples", [])[:2])
        agg["nviol"] += a["nviol"]
        agg["timeouts"] += a["timeouts"]
        agg["slowest"] = max(agg["slowest"], a.get("slowest", 0))
        for key in ("counters", "skips", "reach", "sigs", "mech_counts"):
            for k, v in a.get(key, {}).items():
                agg[key][k] = agg[key].get(k, 0) + v
        for k, d in a["sets"].items():
            dd = agg["sets"].setdefault(k, {})
            for v, n in d.items():
                dd[v] = dd.get(v, 0) + n
        agg["viol"] += a["viol"]
        agg["samples"] += a["samples"][:1]

    # ---- verdict -------------------------------------------------------------------------------
    os.makedirs(os.path.join(OUT, "replays"), exist_ok=True)
    unlisted, listed = {}, {}
    for kv in agg["viol"]:
        for v in kv["viol"]:
            (listed if v["mech"] in known else unlisted).setdefault(v["mech"], []).append((kv, v))
    for mech, n in agg["mech_counts"].items():
        if mech in known:
            f = known[mech]
            print(f"KNOWN-FINDING: property={pid} {mech} ({n} occurrences this run): {f.get('description', '')[:200]}")
    nprinted = 0
    for mech, lst in unlisted.items():
        for kv, v in lst[:2]:
            h = hashlib.sha1(json.dumps(kv["case"], sort_keys=True, default=jdefault).encode()).hexdigest()[:12]
            path = os.path.join(OUT, "replays", f"{pid}_{h}.json")
            with open(path, "w") as f:
                json.dump({"property": pid, "seed": args.seed, "tier": args.tier, "case_index": kv["idx"],
                           "violations": kv["viol"], "case": kv["case"]}, f, default=jdefault, indent=1)
            print(f"VIOLATION property={pid} replay={path}")
            print(f"  monitor={v['monitor']} mech={mech}: {v['msg'][:600]}")
            nprinted += 1
    n_unlisted = sum(n for m, n in agg["mech_counts"].items() if m not in known)

    inconclusive = []
    for d in dead:
        inconclusive.append(f"shard {d[0]} {d[1]}")
    floors = getattr(prop, "FLOORS", {}).get(args.tier, {})
    if not args.cases:
        for k, fl in floors.items():
            got = agg["counters"].get(k, 0)
            if got < fl:
                inconclusive.append(f"counter {k}={got} below floor {fl}")
    if agg.get("gen_errors", 0) > max(3, agg["evaluations"] // 200):
        inconclusive.append(f"{agg['gen_errors']} generator errors, e.g. {agg.get('gen_error_samples', [''])[0]}")
    ntime = agg["timeouts"]
    if ntime > max(2, agg["evaluations"] // 100):
        inconclusive.append(f"{ntime} case watchdog timeouts")
    for k, (num, den, lim) in getattr(prop, "SKIP_BUDGET", {}).items():
        a, b = agg["counters"].get(num, 0), agg["counters"].get(den, 0)
        if b and a / b > lim:
            inconclusive.append(f"skip rate {k}: {a}/{b} exceeds {lim}")

    # ---- evidence ---------------------------------------------------------------------------------
    wall = time.time() - t0
    distinct = len(agg["sigs"])
    sets_summary = {}
    for k, d in agg["sets"].items():
        items = sorted(d.items(), key=lambda kv: -kv[1])
        sets_summary[k] = {"distinct": len(d), "top": dict(items[:60])}
    cov = {
        "evaluations": agg["evaluations"],
        "distinct_nontrivial": distinct,
        "rule": prop.RULE,
        "samples": [trunc(s) for s in agg["samples"][:3]],
        "monitor_evaluations": agg["counters"],
        "observed": sets_summary,
        "hook_reach": agg["reach"],
        "skips": agg["skips"],
        "case_timeouts": ntime,
        "generator_errors": agg.get("gen_errors", 0),
        "slowest_case_s": round(agg["slowest"], 2),
        "known_findings_seen": {m: n for m, n in agg["mech_counts"].items() if m in known},
        "unlisted_violation_mechanisms": {m: n for m, n in agg["mech_counts"].items() if m not in known},
        "inconclusive_reasons": inconclusive,
        "shards": nsh,
    }
    if hasattr(prop, "enumerate_cases") and getattr(prop, "EXHAUSTIVE", False):
        cov["exhaustive"] = True
    if hasattr(prop, "extra_coverage"):
        try:
            cov.update(prop.extra_coverage(agg))
        except Exception as e:
            cov["extra_coverage_error"] = repr(e)
    ev = {"property_id": pid, "tier": args.tier, "seed": args.seed, "level": prop.LEVEL, "coverage": cov,
          "assumptions": list(getattr(prop, "ASSUMPTIONS", [])), "wall_s": round(wall, 2), "violations": n_unlisted}
    if not args.no_evidence:
        os.makedirs(os.path.join(HERE, "evidence"), exist_ok=True)
        path = os.path.join(HERE, "evidence", f"{pid}.json")
        with open(path, "w") as f:
            json.dump(ev, f, indent=1, default=jdefault)
        ok, msg = validate_evidence(path)
        if not ok:
            inconclusive.append("evidence file failed schema validation: " + msg)

    print(f"[{pid}/{args.tier}] seed={args.seed} evaluations={agg['evaluations']} distinct_nontrivial={distinct} "
          f"unlisted_violations={n_unlisted} known={sum(cov['known_findings_seen'].values())} timeouts={ntime}"
          + (f" generator_errors={agg.get('gen_errors', 0)}" if agg.get("gen_errors") else "") + f" wall={wall:.1f}s")
    keys = sorted(agg["counters"])
    print("  monitors: " + ", ".join(f"{k}={agg['counters'][k]}" for k in keys)[:1500])
    if not dead:
        import shutil
        shutil.rmtree(outdir, ignore_errors=True)     # (shard logs are kept only when a shard died)
    if n_unlisted:
        return 1
    if inconclusive:
        print(f"INCONCLUSIVE property={pid} reason=" + "; ".join(inconclusive))
        return 2
    return 0


if __name__ == "__main__":
    sys.exit(main())

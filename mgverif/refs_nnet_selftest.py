"""Self-test of mgverif.refs_nnet against the real MyGrad functions.

Run as::

    cd /verif && PYTHONPATH=/repo/src:/verif /venv/bin/python -B -m mgverif.refs_nnet_selftest

Part 1: for each function ~50 random configurations that are VALID according
to the documentation (float64), compared with np.allclose(rtol=1e-10).
Part 2: for sliding_window_view, conv_nd and max_pool, enumeration of small
configurations comparing the documented validity predicate with what MyGrad
accepts (does not raise).

A disagreement printed here is a finding, not something to paper over in the
references.
"""

import itertools
import warnings

import numpy as np

from mygrad.nnet.activations import logsoftmax, softmax
from mygrad.nnet.layers import batchnorm, conv_nd, max_pool
from mygrad.nnet.layers.gru import gru
from mygrad.nnet.layers.utils import sliding_window_view
from mygrad.nnet.losses import (
    focal_loss,
    margin_ranking_loss,
    multiclass_hinge,
    negative_log_likelihood,
    softmax_crossentropy,
    softmax_focal_loss,
)

from . import refs_nnet as R

SEED = 20260925
N_RANDOM = 50
RTOL = 1e-10
ATOL = 1e-12


def _data(a):
    return np.asarray(getattr(a, "data", a))


def _short(v):
    if isinstance(v, np.ndarray):
        if v.size <= 12:
            return "array(%s, %s)" % (np.array2string(v, precision=4, separator=","), v.dtype)
        return "array(shape=%s, %s)" % (v.shape, v.dtype)
    return repr(v)


def _fmt(cfg):
    return "{" + ", ".join("%s=%s" % (k, _short(v)) for k, v in cfg.items()) + "}"


class Tally:
    def __init__(self, name):
        self.name = name
        self.generated = 0
        self.compared = 0
        self.agree = 0
        self.raised = 0
        self.first_bad = None
        self.first_raise = None

    def run(self, cfg, real, ref):
        """real/ref: zero-argument callables."""
        self.generated += 1
        expected = ref()
        try:
            with warnings.catch_warnings():
                warnings.simplefilter("ignore")
                got = _data(real())
        except Exception as e:  # MyGrad rejected a documented-valid config
            self.raised += 1
            if self.first_raise is None:
                self.first_raise = "%s -> %s: %s" % (_fmt(cfg), type(e).__name__, e)
            return
        self.compared += 1
        ok = (
            got.shape == expected.shape
            and got.dtype == expected.dtype
            and np.allclose(got, expected, rtol=RTOL, atol=ATOL, equal_nan=True)
        )
        if ok:
            self.agree += 1
        elif self.first_bad is None:
            why = []
            if got.shape != expected.shape:
                why.append("shape %s vs ref %s" % (got.shape, expected.shape))
            elif got.dtype != expected.dtype:
                why.append("dtype %s vs ref %s" % (got.dtype, expected.dtype))
            else:
                why.append("max|diff|=%.3e" % np.max(np.abs(got - expected)))
            self.first_bad = "%s [%s]" % (_fmt(cfg), "; ".join(why))

    def report(self):
        line = "%-26s generated=%3d compared=%3d agree=%3d mygrad_raised=%3d" % (
            self.name,
            self.generated,
            self.compared,
            self.agree,
            self.raised,
        )
        if self.first_bad is not None:
            line += " | first disagreement: " + self.first_bad
        if self.first_raise is not None:
            line += " | first raise on valid config: " + self.first_raise
        print(line)


# --------------------------------------------------------------------------
# part 1: random valid configurations
# --------------------------------------------------------------------------


def _maybe_scalar(rng, tup):
    """Pass a per-axis tuple as a single int when uniform (sometimes)."""
    if len(set(tup)) == 1 and rng.random() < 0.5:
        return int(tup[0])
    return tuple(int(i) for i in tup)


def rand_swv(rng, t):
    for _ in range(N_RANDOM):
        ndim = int(rng.integers(1, 5))
        shape = tuple(int(i) for i in rng.integers(1, 7, size=ndim))
        nwin = int(rng.integers(1, min(ndim, 3) + 1))
        trailing = shape[ndim - nwin :]
        win = tuple(int(rng.integers(1, x + 1)) for x in trailing)
        step = _maybe_scalar(rng, tuple(int(rng.integers(1, 4)) for _ in trailing))
        if rng.random() < 0.3:
            dil = None
        else:
            dil = _maybe_scalar(
                rng, tuple(int(rng.integers(1, x // w + 1)) for x, w in zip(trailing, win))
            )
        assert R.swv_valid(shape, win, step, dil)
        arr = rng.normal(size=shape)
        cfg = dict(shape=shape, window_shape=win, step=step, dilation=dil)
        t.run(
            cfg,
            lambda: sliding_window_view(arr, window_shape=win, step=step, dilation=dil),
            lambda: R.swv_ref(arr, win, step, dil),
        )


def rand_conv(rng, t):
    n = 0
    while n < N_RANDOM:
        ns = int(rng.integers(1, 4))
        N, C, F = (int(i) for i in rng.integers(1, 4, size=3))
        W = tuple(int(i) for i in rng.integers(1, 4, size=ns))
        s = tuple(int(i) for i in rng.integers(1, 4, size=ns))
        p = tuple(int(i) for i in rng.integers(0, 3, size=ns))
        d = tuple(int(i) for i in rng.integers(1, 4, size=ns))
        G = tuple(int(i) for i in rng.integers(1, 4, size=ns))
        X = tuple(
            (G[k] - 1) * s[k] + (W[k] - 1) * d[k] + 1 - 2 * p[k] for k in range(ns)
        )
        if any(x < 1 or x > 7 for x in X):
            continue
        n += 1
        x_shape, w_shape = (N, C) + X, (F, C) + W
        stride, padding, dilation = (_maybe_scalar(rng, v) for v in (s, p, d))
        assert R.conv_valid(x_shape, w_shape, stride, padding, dilation)
        x = rng.normal(size=x_shape)
        w = rng.normal(size=w_shape)
        cfg = dict(
            x_shape=x_shape, w_shape=w_shape, stride=stride, padding=padding, dilation=dilation
        )
        t.run(
            cfg,
            lambda: conv_nd(x, w, stride=stride, padding=padding, dilation=dilation),
            lambda: R.conv_ref(x, w, stride, padding, dilation),
        )


def rand_pool(rng, t):
    for _ in range(N_RANDOM):
        npool = int(rng.integers(1, 4))
        nlead = int(rng.integers(0, 3))
        lead = tuple(int(i) for i in rng.integers(1, 4, size=nlead))
        P = tuple(int(i) for i in rng.integers(1, 4, size=npool))
        s = tuple(int(i) for i in rng.integers(1, 4, size=npool))
        G = tuple(int(i) for i in rng.integers(1, 4, size=npool))
        X = tuple((G[k] - 1) * s[k] + P[k] for k in range(npool))
        shape = lead + X
        stride = _maybe_scalar(rng, s)
        assert R.pool_valid(shape, P, stride)
        x = rng.normal(size=shape)
        cfg = dict(x_shape=shape, pool=P, stride=stride)
        t.run(cfg, lambda: max_pool(x, P, stride), lambda: R.max_pool_ref(x, P, stride))


def rand_batchnorm(rng, t):
    for _ in range(N_RANDOM):
        ndim = int(rng.integers(2, 5))
        shape = tuple(int(i) for i in rng.integers(1, 5, size=ndim))
        if int(np.prod(shape)) // shape[1] < 2:
            shape = (shape[0] + 1,) + shape[1:]
        x = rng.normal(size=shape) * 3 + 1
        gamma = rng.normal(size=shape[1]) if rng.random() < 0.6 else None
        beta = rng.normal(size=shape[1]) if rng.random() < 0.6 else None
        eps = float(rng.choice([0.0, 1e-8, 1e-3, 0.5]))
        cfg = dict(x=x, gamma=gamma, beta=beta, eps=eps)
        t.run(
            cfg,
            lambda: batchnorm(x, gamma=gamma, beta=beta, eps=eps),
            lambda: R.batchnorm_ref(x, gamma, beta, eps),
        )


def rand_gru(rng, t):
    for _ in range(N_RANDOM):
        T, N, C, D = (int(i) for i in rng.integers(1, 5, size=4))
        X = rng.normal(size=(T, N, C))
        U = [rng.normal(size=(C, D)) for _ in range(3)]
        W = [rng.normal(size=(D, D)) for _ in range(3)]
        b = [rng.normal(size=(D,)) for _ in range(3)]
        s0 = rng.normal(size=(N, D)) if rng.random() < 0.5 else None
        args = (X, U[0], W[0], b[0], U[1], W[1], b[1], U[2], W[2], b[2])
        cfg = dict(T=T, N=N, C=C, D=D, s0=s0)
        t.run(cfg, lambda: gru(*args, s0=s0), lambda: R.gru_ref(*args, s0=s0))


def _rand_axis(rng, ndim):
    kind = rng.integers(0, 3)
    if kind == 0:
        return None
    if kind == 1:
        return int(rng.integers(-ndim, ndim))
    k = int(rng.integers(1, ndim + 1))
    axes = rng.choice(ndim, size=k, replace=False)
    return tuple(int(a) - (ndim if rng.random() < 0.5 else 0) for a in axes)


def rand_softmax(rng, t, real, ref):
    for _ in range(N_RANDOM):
        ndim = int(rng.integers(1, 5))
        shape = tuple(int(i) for i in rng.integers(1, 5, size=ndim))
        x = rng.normal(size=shape) * 4
        axis = _rand_axis(rng, ndim)
        cfg = dict(shape=shape, axis=axis, x=x)
        t.run(cfg, lambda: real(x, axis=axis), lambda: ref(x, axis))


def _scores_labels(rng):
    N, C = int(rng.integers(1, 6)), int(rng.integers(1, 6))
    x = rng.normal(size=(N, C)) * 3
    y = rng.integers(0, C, size=N)
    return x, y


def rand_sce(rng, t):
    for _ in range(N_RANDOM):
        x, y = _scores_labels(rng)
        cfg = dict(x=x, y_true=y)
        t.run(cfg, lambda: softmax_crossentropy(x, y), lambda: R.softmax_crossentropy_ref(x, y))


def rand_nll(rng, t):
    for _ in range(N_RANDOM):
        x, y = _scores_labels(rng)
        x = R.logsoftmax_ref(x, -1)
        w = rng.uniform(0.1, 3.0, size=x.shape[1]) if rng.random() < 0.6 else None
        cfg = dict(x=x, y_true=y, weights=w)
        t.run(
            cfg,
            lambda: negative_log_likelihood(x, y, weights=w),
            lambda: R.negative_log_likelihood_ref(x, y, weights=w),
        )


def rand_hinge(rng, t):
    for _ in range(N_RANDOM):
        x, y = _scores_labels(rng)
        hinge = float(rng.choice([1.0, 0.0, 0.5, 2.5]))
        cfg = dict(x=x, y_true=y, hinge=hinge)
        t.run(
            cfg,
            lambda: multiclass_hinge(x, y, hinge=hinge),
            lambda: R.multiclass_hinge_ref(x, y, hinge=hinge),
        )


def rand_margin(rng, t):
    for _ in range(N_RANDOM):
        N = int(rng.integers(1, 6))
        shape = (N,) if rng.random() < 0.5 else (N, int(rng.integers(1, 5)))
        x1, x2 = rng.normal(size=shape), rng.normal(size=shape)
        kind = rng.integers(0, 3)
        if kind == 0:
            y = int(rng.choice([-1, 1]))
        elif kind == 1:
            y = rng.choice([-1, 1], size=N)
        else:
            y = rng.choice([-1.0, 1.0], size=N)
        margin = float(rng.choice([0.0, 0.3, 1.0, 2.0]))
        cfg = dict(x1=x1, x2=x2, y=y, margin=margin)
        t.run(
            cfg,
            lambda: margin_ranking_loss(x1, x2, y, margin),
            lambda: R.margin_ranking_loss_ref(x1, x2, y, margin),
        )


def rand_focal(rng, t, soft):
    for _ in range(N_RANDOM):
        x, y = _scores_labels(rng)
        if not soft:
            if rng.random() < 0.5:
                x = R.softmax_ref(x, -1)
            else:
                x = rng.uniform(0.05, 1.0, size=x.shape)
        alpha = float(rng.choice([1.0, 0.25, 2.0]))
        gamma = float(rng.choice([0.0, 0.5, 1.0, 2.0, 3.3]))
        if rng.random() < 0.3:
            alpha, gamma = int(rng.choice([1, 2])), int(rng.choice([0, 1, 2]))
        cfg = dict(x=x, targets=y, alpha=alpha, gamma=gamma)
        if soft:
            t.run(
                cfg,
                lambda: softmax_focal_loss(x, y, alpha=alpha, gamma=gamma),
                lambda: R.softmax_focal_loss_ref(x, y, alpha=alpha, gamma=gamma),
            )
        else:
            t.run(
                cfg,
                lambda: focal_loss(x, y, alpha=alpha, gamma=gamma),
                lambda: R.focal_loss_ref(x, y, alpha=alpha, gamma=gamma),
            )


def part1():
    print("== part 1: references vs MyGrad on random documented-valid configurations ==")
    rng = np.random.default_rng(SEED)
    jobs = [
        ("sliding_window_view", rand_swv),
        ("conv_nd", rand_conv),
        ("max_pool", rand_pool),
        ("batchnorm", rand_batchnorm),
        ("gru", rand_gru),
        ("softmax", lambda r, t: rand_softmax(r, t, softmax, R.softmax_ref)),
        ("logsoftmax", lambda r, t: rand_softmax(r, t, logsoftmax, R.logsoftmax_ref)),
        ("softmax_crossentropy", rand_sce),
        ("negative_log_likelihood", rand_nll),
        ("multiclass_hinge", rand_hinge),
        ("margin_ranking_loss", rand_margin),
        ("focal_loss", lambda r, t: rand_focal(r, t, False)),
        ("softmax_focal_loss", lambda r, t: rand_focal(r, t, True)),
    ]
    for name, job in jobs:
        t = Tally(name)
        job(rng, t)
        t.report()


# --------------------------------------------------------------------------
# part 2: validity predicate vs what MyGrad accepts
# --------------------------------------------------------------------------


class Validity:
    def __init__(self, name, key=None, explain=None):
        self.name = name
        self.key = key  # examples are chosen with distinct key(cfg)
        self.explain = explain  # tag for a "valid but rejected" config
        self.tags = {}
        self._seen_keys = set()
        self.total = 0
        self.both_accept = 0
        self.both_reject = 0
        self.ref_only = []  # predicate accepts, MyGrad raises
        self.mg_only = []  # MyGrad accepts, predicate rejects
        self.n_ref_only = 0
        self.n_mg_only = 0
        self.value_mismatch = 0
        self.first_value_mismatch = None

    def check(self, cfg, valid, real, ref):
        self.total += 1
        try:
            with warnings.catch_warnings():
                warnings.simplefilter("ignore")
                got = _data(real())
            err = None
        except Exception as e:
            got, err = None, e
        if valid and err is None:
            self.both_accept += 1
            expected = ref()
            if got.shape != expected.shape or not np.allclose(
                got, expected, rtol=RTOL, atol=ATOL
            ):
                self.value_mismatch += 1
                if self.first_value_mismatch is None:
                    self.first_value_mismatch = _fmt(cfg)
        elif not valid and err is not None:
            self.both_reject += 1
        elif valid:
            self.n_ref_only += 1
            if self.explain is not None:
                tag = self.explain(cfg)
                self.tags[tag] = self.tags.get(tag, 0) + 1
            k = self.key(cfg) if self.key is not None else self.n_ref_only
            if len(self.ref_only) < 3 and k not in self._seen_keys:
                self._seen_keys.add(k)
                self.ref_only.append(
                    "%s -> %s: %s" % (_fmt(cfg), type(err).__name__, str(err)[:90])
                )
        else:
            self.n_mg_only += 1
            if len(self.mg_only) < 3:
                self.mg_only.append("%s -> output shape %s" % (_fmt(cfg), got.shape))

    def report(self):
        print(
            "%-22s configs=%6d both_accept=%6d both_reject=%6d "
            "ref_accepts_mygrad_rejects=%5d mygrad_accepts_ref_rejects=%5d "
            "value_mismatch_when_both_accept=%d"
            % (
                self.name,
                self.total,
                self.both_accept,
                self.both_reject,
                self.n_ref_only,
                self.n_mg_only,
                self.value_mismatch,
            )
        )
        for e in self.ref_only:
            print("    valid by docs/tests, MyGrad raises: " + e)
        for tag, n in sorted(self.tags.items()):
            print("    valid-but-rejected configs with %s: %d" % (tag, n))
        for e in self.mg_only:
            print("    invalid by docs/tests, MyGrad accepts: " + e)
        if self.first_value_mismatch:
            print("    first value mismatch: " + self.first_value_mismatch)


def enum_swv():
    v = Validity("sliding_window_view")
    sizes, wins, steps = range(1, 7), range(1, 4), range(1, 4)
    dils = [None, 1, 2, 3]

    def one(shape, win, step, dil):
        arr = np.arange(float(np.prod(shape))).reshape(shape)
        cfg = dict(shape=shape, window_shape=win, step=step, dilation=dil)
        v.check(
            cfg,
            R.swv_valid(shape, win, step, dil),
            lambda: sliding_window_view(arr, window_shape=win, step=step, dilation=dil),
            lambda: R.swv_ref(arr, win, step, dil),
        )

    # 1-D arrays
    for x, w, s, d in itertools.product(sizes, wins, steps, dils):
        one((x,), (w,), s, d)
    # 2-D arrays, window over the last axis only
    for x0, x, w, s, d in itertools.product((1, 3), sizes, wins, steps, dils):
        one((x0, x), (w,), s, d)
    # 2-D arrays, 2-D windows, per-axis step and dilation
    dils2 = [None] + list(itertools.product((1, 2, 3), repeat=2))
    for x, w, s, d in itertools.product(
        itertools.product(sizes, repeat=2),
        itertools.product(wins, repeat=2),
        itertools.product(steps, repeat=2),
        dils2,
    ):
        one(x, w, s, d)
    # argument-type / sign cases on a 6x6 array
    odd = [
        dict(win=(1, 1), step=0, dil=None),
        dict(win=(1, 1), step=-1, dil=None),
        dict(win=(1, 1), step=(1, 0), dil=None),
        dict(win=(1, 1), step=(1,), dil=None),
        dict(win=(1, 1), step=1.0, dil=None),
        dict(win=(1, 1), step=None, dil=None),
        dict(win=(0, 1), step=1, dil=None),
        dict(win=(-1, 1), step=1, dil=None),
        dict(win=(1.0, 1.0), step=1, dil=None),
        dict(win=1, step=1, dil=None),
        dict(win=None, step=1, dil=None),
        dict(win=(1, 1, 1), step=1, dil=None),
        dict(win=(1, 1), step=1, dil=0),
        dict(win=(1, 1), step=1, dil=-1),
        dict(win=(1, 1), step=1, dil=(1, 0)),
        dict(win=(1, 1), step=1, dil=(1, 1, 1)),
        dict(win=(1, 1), step=1, dil=1.0),
        dict(win=(1, 1), step=1, dil="aa"),
        dict(win=(1, 1), step=1, dil=7),
        dict(win=(1, 1), step=1, dil=6),
        dict(win=[2, 2], step=[1, 2], dil=[3, 3]),
        dict(win=(2, 2), step=np.int64(2), dil=np.int64(2)),
    ]
    for o in odd:
        one((6, 6), o["win"], o["step"], o["dil"])
    v.report()


def enum_conv():
    def explain(cfg):
        ns = len(cfg["x_shape"]) - 2
        st, pd, dl = (R.norm_tuple(cfg[k], ns) for k in ("stride", "padding", "dilation"))
        over = any(
            cfg["w_shape"][2 + k] * dl[k] > cfg["x_shape"][2 + k] + 2 * pd[k]
            for k in range(ns)
        )
        return "W*d > X+2p on some axis" if over else "W*d <= X+2p on every axis"

    v = Validity("conv_nd", key=lambda cfg: cfg["w_shape"], explain=explain)
    rng = np.random.default_rng(SEED + 1)

    def one(X, W, s, p, d):
        x_shape, w_shape = (1, 1) + X, (1, 1) + W
        x = rng.normal(size=x_shape)
        w = rng.normal(size=w_shape)
        cfg = dict(x_shape=x_shape, w_shape=w_shape, stride=s, padding=p, dilation=d)
        v.check(
            cfg,
            R.conv_valid(x_shape, w_shape, s, p, d),
            lambda: conv_nd(x, w, stride=s, padding=p, dilation=d),
            lambda: R.conv_ref(x, w, s, p, d),
        )

    sizes, wins, strides, pads, dils = range(1, 7), range(1, 4), range(1, 4), range(0, 3), range(1, 4)
    # 1-D
    for X, W, s, p, d in itertools.product(sizes, wins, strides, pads, dils):
        one((X,), (W,), s, p, d)
    # 2-D, shared stride / padding / dilation
    for X, W, s, p, d in itertools.product(
        itertools.product(sizes, repeat=2),
        itertools.product(wins, repeat=2),
        strides,
        pads,
        dils,
    ):
        one(X, W, s, p, d)
    # 2-D, per-axis stride / padding / dilation on a reduced range
    for X, W, s, p, d in itertools.product(
        itertools.product(range(1, 5), repeat=2),
        itertools.product(range(1, 3), repeat=2),
        itertools.product(range(1, 3), repeat=2),
        itertools.product(range(0, 2), repeat=2),
        itertools.product(range(1, 3), repeat=2),
    ):
        one(X, W, s, p, d)
    v.report()


def enum_pool():
    v = Validity("max_pool")
    rng = np.random.default_rng(SEED + 2)

    def one(shape, P, s):
        x = rng.normal(size=shape)
        cfg = dict(x_shape=shape, pool=P, stride=s)
        v.check(
            cfg,
            R.pool_valid(shape, P, s),
            lambda: max_pool(x, P, s),
            lambda: R.max_pool_ref(x, P, s),
        )

    sizes, pools, strides = range(1, 7), range(1, 4), range(1, 4)
    for X, P, s in itertools.product(sizes, pools, strides):
        one((X,), (P,), s)
        one((2, X), (P,), s)
    for X, P, s in itertools.product(
        itertools.product(sizes, repeat=2),
        itertools.product(pools, repeat=2),
        itertools.product(strides, repeat=2),
    ):
        one(X, P, s)
        if X[0] <= 3 and X[1] <= 3:
            one((2,) + X, P, s)
    # argument-type / sign cases
    for P, s in [
        ((0, 1), 1),
        ((1, 1), 0),
        ((1, 1), -1),
        ((1, 1), (1,)),
        ((1, 1, 1), 1),
        ((1.0, 1.0), 1),
        ((1, 1), 1.0),
        (1, 1),
    ]:
        one((4, 4), P, s)
    v.report()


def part2():
    print("== part 2: documented validity predicate vs what MyGrad accepts ==")
    enum_swv()
    enum_conv()
    enum_pool()


# --------------------------------------------------------------------------
# part 3: the references compute in the dtype of their inputs
# --------------------------------------------------------------------------


def part3():
    print("== part 3: references in numpy.longdouble (dtype kept, agrees with float64 run) ==")
    rng = np.random.default_rng(SEED + 3)
    L = np.longdouble
    x4 = rng.normal(size=(2, 2, 5, 4))
    w4 = rng.normal(size=(3, 2, 2, 2))
    sc = rng.normal(size=(4, 3))
    y = rng.integers(0, 3, size=4)
    wt = rng.uniform(0.5, 2, size=3)
    gam, bet = rng.normal(size=2), rng.normal(size=2)
    X = rng.normal(size=(3, 2, 2))
    gp = [rng.normal(size=s) for s in [(2, 3), (3, 3), (3,)] * 3]
    s0 = rng.normal(size=(2, 3))
    probs = R.softmax_ref(sc, -1)
    x1, x2 = rng.normal(size=(4, 2)), rng.normal(size=(4, 2))
    yy = rng.choice([-1, 1], size=4)
    cases = [
        ("swv_ref", lambda c: R.swv_ref(c(x4), (2, 2), (1, 2), (2, 1))),
        ("conv_ref", lambda c: R.conv_ref(c(x4), c(w4), (1, 2), (1, 0), (2, 1))),
        ("max_pool_ref", lambda c: R.max_pool_ref(c(x4), (1, 2), (2, 1))),
        ("batchnorm_ref", lambda c: R.batchnorm_ref(c(x4), c(gam), c(bet), 1e-3)),
        ("gru_ref", lambda c: R.gru_ref(c(X), *[c(g) for g in gp], s0=c(s0))),
        ("softmax_ref", lambda c: R.softmax_ref(c(x4), (1, -1))),
        ("logsoftmax_ref", lambda c: R.logsoftmax_ref(c(x4), None)),
        ("softmax_crossentropy_ref", lambda c: R.softmax_crossentropy_ref(c(sc), y)),
        ("negative_log_likelihood_ref", lambda c: R.negative_log_likelihood_ref(c(sc), y, c(wt))),
        ("multiclass_hinge_ref", lambda c: R.multiclass_hinge_ref(c(sc), y, 0.5)),
        ("margin_ranking_loss_ref", lambda c: R.margin_ranking_loss_ref(c(x1), c(x2), yy, 0.5)),
        ("focal_loss_ref", lambda c: R.focal_loss_ref(c(probs), y, 0.5, 1.5)),
        ("softmax_focal_loss_ref", lambda c: R.softmax_focal_loss_ref(c(sc), y, 0.5, 1.5)),
    ]
    bad = []
    for name, f in cases:
        lo = f(lambda a: a)
        hi = f(lambda a: a.astype(L))
        ok = (
            lo.dtype == np.float64
            and hi.dtype == np.dtype(L)
            and hi.shape == lo.shape
            and np.allclose(lo, hi.astype(np.float64), rtol=1e-12, atol=1e-14)
        )
        if not ok:
            bad.append(name)
    print(
        "longdouble check: %d/%d references keep the input dtype and agree with their float64 run%s"
        % (len(cases) - len(bad), len(cases), "" if not bad else " | failing: %s" % bad)
    )


def main():
    np.seterr(all="ignore")
    part1()
    part2()
    part3()


if __name__ == "__main__":
    main()

#!/bin/bash
# quick tier of every property for several seeds, against the snapshot of /repo's HEAD ($VP_RUN_REPO) or /repo
export MGVERIF_REPO=${VP_RUN_REPO:-/repo}
for s in ${SEEDS:-1 2 3 4 5 6}; do
  for p in C01 C02 C03 C04 C05 C06 C07 C08 C09 C10 C11 C12 C13 C14 C15 C16 C17 C18; do
    VERIF_SEED=$s ./check $p --tier quick --no-evidence --shards 8 2>&1 | grep -E "^\[|INCONCL|^VIOL|monitor=" | cut -c1-260
  done
done

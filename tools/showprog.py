#!/usr/bin/env python3
"""showprog.py <replay.json> [width]: prints the statements of a replay file."""
import json, sys
d = json.load(open(sys.argv[1]))
c = d.get("case", d)
w = int(sys.argv[2]) if len(sys.argv) > 2 else 170
for i, st in enumerate(c["prog"]):
    print(i, json.dumps(st)[:w])
for k, v in c.items():
    if k != "prog":
        print(k, "=", json.dumps(v)[:200])

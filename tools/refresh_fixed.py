#!/usr/bin/env python3
"""Rewrites the commit hashes of the 'fixed' entries in known_findings.json from the subjects of the fix: commits in /repo
(run by hand after the /repo history is edited; never run by a check)."""
import json, subprocess, re
p = "/verif/known_findings.json"
d = json.load(open(p))
log = subprocess.run(["git", "-C", "/repo", "log", "--format=%h\t%s", "9cd3091..HEAD"], capture_output=True, text=True).stdout.strip().splitlines()
subj = {l.split("\t")[1]: l.split("\t")[0] for l in log}
out = []
for e in d["fixed_entries"]:
    h = subj.get(e["subject"])
    assert h, e["subject"]
    e["commit"] = h
    out.append(f"fixed: property={e['property']} {h} {e['what']}")
d["fixed"] = out
missing = [s for s in subj if s not in {e["subject"] for e in d["fixed_entries"]}]
json.dump(d, open(p, "w"), indent=1)
print(len(out), "fixed entries; fix commits without an entry:", missing)

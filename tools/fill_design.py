#!/usr/bin/env python3
"""Regenerates the seeded-change catch matrix of DESIGN.md section 11 from seeded/*/meta.json (between the two marker lines)."""
import json, glob, os, re
rows = []
for f in sorted(glob.glob("/verif/seeded/*/meta.json")):
    m = json.load(open(f))
    need = m["needs_to_manifest"].replace("\n", " ")
    first = re.split(r"(?<=[.;])\s", need.strip("# ").strip())[0:2]
    patch = open(os.path.join(os.path.dirname(f), "patch.diff")).read()
    files = sorted(set(re.findall(r"^\+\+\+ b/(\S+)", patch, re.M)))
    rows.append((m["seed_id"], m["property"], ", ".join(os.path.basename(x) for x in files), ", ".join(m["caught_by_quick"]) or "**missed**"))
tab = "| seeded change | breaks | touches | caught by (quick tier) |\n|---|---|---|---|\n" + "\n".join(f"| {a} | {b} | {c} | {d} |" for a, b, c, d in rows)
tab += f"\n\n{len(rows)} confirmed seeded changes; {sum(1 for r in rows if r[3] != '**missed**')} caught by at least one quick check (what each needs in order to manifest is in its meta.json)."
p = "/verif/DESIGN.md"
s = open(p).read()
if "SEEDED_MATRIX_PLACEHOLDER" in s:
    s = s.replace("SEEDED_MATRIX_PLACEHOLDER", "<!-- seeded-matrix:begin -->\n" + tab + "\n<!-- seeded-matrix:end -->")
else:
    s = re.sub(r"<!-- seeded-matrix:begin -->.*?<!-- seeded-matrix:end -->", "<!-- seeded-matrix:begin -->\n" + tab.replace("\\", "\\\\") + "\n<!-- seeded-matrix:end -->", s, flags=re.S)
open(p, "w").write(s)
print(len(rows), "rows")

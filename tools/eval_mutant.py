#!/usr/bin/env python3
"""Apply a seeded change to /repo, run checks against it, undo it.   usage: eval_mutant.py <mutant dir> <PID> [--all] [--tier quick]
Prints which checks report a VIOLATION. Never leaves the patch applied."""
import json, os, subprocess, sys, time
mdir, pid = sys.argv[1], sys.argv[2]
props = pid.split(",")
pid = props[0]
if "--all" in sys.argv:
    props = [pid] + [p for p in [f"C{n:02d}" for n in range(1, 19)] if p != pid]
patch = os.path.join(mdir, "patch.diff")
demo = os.path.join(mdir, "demo.py")
env = dict(os.environ, PYTHONPATH="/repo/src")
def run(cmd, **kw):
    return subprocess.run(cmd, capture_output=True, text=True, **kw)
assert run(["git", "-C", "/repo", "status", "--porcelain", "--untracked-files=no"]).stdout.strip() == "", "repo not clean"
r = run(["git", "-C", "/repo", "apply", "--check", patch])
if r.returncode:
    print("PATCH DOES NOT APPLY:", r.stderr[:300]); sys.exit(2)
run(["git", "-C", "/repo", "apply", patch])
res = {}
try:
    d1 = run(["/venv/bin/python", "-B", demo], env=env, cwd="/tmp", timeout=600).returncode if os.path.exists(demo) else None
    for p in props:
        t = time.time()
        c = run(["./check", p, "--no-evidence"], cwd="/verif", timeout=3600)
        mech = sorted({l.split("mech=")[1].split(":")[0] + ":" + l.split("mech=")[1].split(":")[1][:40] if l.split("mech=")[1].count(":") else l.split("mech=")[1][:50]
                       for l in c.stdout.splitlines() if "mech=" in l})
        res[p] = {"exit": c.returncode, "s": round(time.time() - t), "mechs": mech[:4]}
        print(f"  {p}: exit={c.returncode} ({res[p]['s']}s) {mech[:3]}", flush=True)
finally:
    run(["git", "-C", "/repo", "checkout", "--", "."])
d2 = run(["/venv/bin/python", "-B", demo], env=env, cwd="/tmp", timeout=600).returncode if os.path.exists(demo) else None
print(json.dumps({"mutant": mdir, "target": pid, "demo_with_patch": d1, "demo_without": d2, "caught_by": [p for p, v in res.items() if v["exit"] == 1], "results": res}))

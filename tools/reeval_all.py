#!/usr/bin/env python3
"""Re-evaluates every seeded change in /verif/seeded against the check of its own property, on a scratch worktree of /repo's HEAD (so /repo itself
stays untouched and usable meanwhile).   usage: reeval_all.py [workers=3] [filter-prefix]
Writes out/reeval.json: {seed id: {"status": "caught"|"MISSED"|"obsolete (patch no longer applies)", "mechs": [...]}}; the worktrees are removed at the end."""
import json, os, subprocess, sys, shutil
from concurrent.futures import ThreadPoolExecutor
W = int(sys.argv[1]) if len(sys.argv) > 1 else 3
prefix = sys.argv[2] if len(sys.argv) > 2 else ""
ROOT = "/tmp/reeval"
os.makedirs(ROOT, exist_ok=True)
def run(cmd, **kw):
    return subprocess.run(cmd, capture_output=True, text=True, **kw)
seeds = sorted(d for d in os.listdir("/verif/seeded") if os.path.exists(f"/verif/seeded/{d}/patch.diff") and os.path.exists(f"/verif/seeded/{d}/meta.json") and d.startswith(prefix))
def worker(k):
    wt = f"{ROOT}/wt{k}"
    run(["git", "-C", "/repo", "worktree", "remove", "--force", wt])
    r = run(["git", "-C", "/repo", "worktree", "add", "--detach", wt, "HEAD"])
    assert r.returncode == 0, r.stderr
    vf = "/repo/src/mygrad/_version.py"
    if os.path.exists(vf):
        shutil.copy(vf, f"{wt}/src/mygrad/_version.py")
    out = {}
    for sid in seeds[k::W]:
        meta = json.load(open(f"/verif/seeded/{sid}/meta.json"))
        pid = meta["property"]
        patch = f"/verif/seeded/{sid}/patch.diff"
        if run(["git", "-C", wt, "apply", "--check", patch]).returncode:
            out[sid] = {"status": "obsolete (patch no longer applies)"}
            print(sid, out[sid], flush=True)
            continue
        run(["git", "-C", wt, "apply", patch])
        try:
            props = [pid] + [p for p in meta.get("caught_by_quick", []) if p != pid]
            res = {}
            for p in props:
                c = run(["./check", p, "--no-evidence", "--shards", "4"], cwd="/verif", env=dict(os.environ, MGVERIF_REPO=wt), timeout=3600)
                res[p] = c.returncode
                if c.returncode == 1:
                    break
            out[sid] = {"status": "caught" if 1 in res.values() else "MISSED", "results": res}
        finally:
            run(["git", "-C", wt, "checkout", "--", "."])
            run(["git", "-C", wt, "clean", "-fdq", "--exclude=src/mygrad/_version.py"])
        print(sid, out[sid], flush=True)
    run(["git", "-C", "/repo", "worktree", "remove", "--force", wt])
    return out
allout = {}
with ThreadPoolExecutor(W) as ex:
    for o in ex.map(worker, range(W)):
        allout.update(o)
run(["git", "-C", "/repo", "worktree", "prune"])
shutil.rmtree(ROOT, ignore_errors=True)
os.makedirs("/verif/out", exist_ok=True)
json.dump(allout, open("/verif/out/reeval.json", "w"), indent=1, sort_keys=True)
print("caught", sum(v["status"] == "caught" for v in allout.values()), "missed", [k for k, v in allout.items() if v["status"] == "MISSED"],
      "obsolete", [k for k, v in allout.items() if v["status"].startswith("obsolete")])

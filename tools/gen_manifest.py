#!/usr/bin/env python3
"""Regenerates MANIFEST.json from the table below (run from /verif)."""
import json, os, subprocess
HERE = os.path.dirname(os.path.dirname(os.path.abspath(__file__)))
props = [json.loads(l) for l in open(os.path.join(HERE, "properties.jsonl"))]
CHECKS = {
 "C01": dict(cat="exploration", tech="runtime differential monitor: longdouble finite-difference oracle (owner-injection rule) + metamorphic reorder/swap re-execution + reachability monitor over generated DAG programs",
             text="Random DAG programs over the whole op table are executed on the real library; every non-constant leaf and intermediate gradient is judged against 5-point+Richardson finite differences of the same program run by NumPy in 80-bit longdouble (tau=1e-8*S), against re-executions with commutative operands swapped and statements re-ordered (1e-12*S), and against syntactic reachability (missing/spurious gradients). Exploration is the right level: the property quantifies over programs and inputs, the oracle is independent of the code under test, and coverage (op classes, fan-out, distinct structures) is measured per run.",
             note="Trusted: NumPy longdouble evaluation as reference semantics; generator bounds (ndim<=3, sides<=3, <=48 elements, <=30 nodes); kink/ill-conditioned directions are skipped and counted (budget 15%).", ref="3/C01"),
 "C04": dict(cat="exploration", tech="runtime reference-model monitor: NumPy shadow executed in lockstep, compared after every statement (values, pairwise shares_memory, .base, identity, constant flag)",
             text="Random histories of view creation, reads and in-place updates (set-item of every index kind, augmented assignment, ufunc out=/where=, .shape assignment) run on tensors and, statement by statement, on NumPy arrays; after every statement every live tensor is compared with its shadow array exactly, every pair's np.shares_memory with the shadow pair's, .base with the name owning the shadow's root array, and object identity / constant flag with their values at creation.",
             note="Trusted: NumPy as the specification of view/in-place semantics. Empty arrays are excluded from sharing/base checks; view functions are applied to tensors only; histories stay in one graph epoch.", ref="3/C04"),
 "C02": dict(cat="exploration", tech="runtime differential monitor per operation: longdouble finite-difference VJP oracle over the op registry x option lattice, gradient shape/dtype invariant, exact kink-convention checks",
             text="Every spec of the op table (all public differentiable entry points; Operation subclasses not reached are listed in the evidence) is driven with seeded single-op programs over operand dtypes/layouts/0-d/empty shapes and the op's legal options, back-propagated with a dense random cotangent and judged against 5-point+Richardson finite differences in longdouble at tau=1e-11*S (five orders below the suite's tolerance), plus exact checks of the documented conventions at kinks.",
             note="Trusted: NumPy longdouble evaluation of the namesake/closed form; domain predicates keep operands in the interior of the differentiable domain; float32/16 judged at their own precision.", ref="3/C02"),
 "C03": dict(cat="exploration", tech="runtime differential monitor: the same call executed by NumPy on the underlying arrays (exact value/shape/dtype parity), tracked and under no_autodiff",
             text="Seeded calls of every function/method/operator with a NumPy namesake over the operand lattice {bool,int8..int64,uint8,float16/32/64} x {tensor, ndarray, NumPy scalar, Python scalar} x {0-d, empty, broadcast, non-contiguous} with special values and the dtype/out/where/axis/keepdims options are compared bit-for-bit with NumPy's own result, and again under no_autodiff.",
             note="Trusted: NumPy 2.x as the specification. Calls NumPy rejects are skipped; MyGrad-only rejections are recorded, not judged. Known finding: Python-scalar promotion (listed in known_findings.json).", ref="3/C03"),
 "C05": dict(cat="exploration", tech="runtime differential monitor over in-place/view histories: longdouble finite differences of the NumPy program with perturbation injected into the owner's memory at the family's epoch start",
             text="Random histories of views, reads before/after mutation and in-place updates (all index kinds, augmented ops, out=/where=, .shape) followed by a weighted read-out and backward; every non-constant float tensor alive at the end is judged against finite differences of the identical NumPy program, perturbing the memory the tensor covers right after the last in-place statement on its view family (the statement's 'equivalent purely functional program').",
             note="Trusted: NumPy in-place semantics + longdouble evaluation; constant tensors are never in-place targets here (C10).", ref="3/C05"),
 "C06": dict(cat="exploration", tech="runtime invariant monitor after backward: view gradients vs NumPy index map of the view chain applied to the base gradient (value, availability, shares_memory), pairwise gradient aliasing",
             text="Random programs over bases of every layout with chains of view ops, consumed in random order through consumers that deliver gradients in different layouts/orders; after backward every view's gradient must be available iff the base's is, equal the base gradient gathered through the NumPy-computed index map, and share memory with it; unrelated tensors' gradients must not alias. The evidence lists the (first contributing op, layout) pairs actually observed at Operation.backward.",
             note="Functional programs only; empty tensors excluded from sharing checks.", ref="3/C06"),
 "C08": dict(cat="exploration", tech="runtime invariant monitor on hooked lock state: I1/I2 evaluated from observed operation liveness (weakrefs) after every statement and at quiescence; GC injection via sys.monitoring in the thorough tier",
             text="Histories over user arrays (owned/views/read-only) and tensors (copies, copy=False wrappers, views): ops, out=, in-place updates, failing ops, guard/no_autodiff scopes, user views taken while locked, backward/clear_graph, del in random order, reference cycles, gc. After every statement: every live guarded op with an uncleared upstream has all its recorded arrays read-only (I1); every array no live op refers to (nor to its owner) has its original flag (I2); at quiescence all arrays are back to their original flags.",
             note="Flag unspecified between 'partly cleared' and 'op dead' (not judged). Arrays enter I2's range when MyGrad is asked to guard them. Known finding: user-made read-only views of writeable owners (known_findings.json).", ref="3/C08"),
 "C11": dict(cat="exploration", tech="runtime metamorphic monitor: the same call re-executed under every applicable spelling on identical operands, results and gradients compared bit-for-bit; enumerated negative half over the registries",
             text="For seeded calls, every applicable spelling (mg.f, np.f via __array_ufunc__/__array_function__, Tensor method, operator/reflected operator, augmented assignment, out=Tensor) is executed on fresh copies of identical operands with the same cotangent; values, dtype, constant flag and all leaf gradients must be identical. The bool-only/const-only ufunc registries and the no-diff function registry are enumerated: non-Tensor results, ValueError on non-constant tensors for the rounding/modulo family.",
             note="Spellings are compared with each other (C03 compares with NumPy).", ref="3/C11"),
 "C13": dict(cat="fault_enumeration", tech="fault injection at the kernel boundary (natural failing statements + raise-before/after-kernel via wrapped Operation.__call__) at every program position, with snapshot-diff and fault-free differential monitors",
             text="For generated in-place/view programs, at every statement position and for every fault kind of a 26-entry catalogue one failing statement aimed at a live tensor is inserted; the snapshot (bytes, flags, base/creator identity, consumers, writeability) of every live tensor and caller array must be identical right before and after the exception, and the program's final values and gradients must be bit-identical to the fault-free run.",
             note="Faults only at the kernel boundary of the failing statement's own operation; statements that do not raise are counted, not judged.", ref="3/C13"),
}
NA_REASON = "check under construction (build phase in progress); will be claimed once its monitor is validated on the unchanged tree"
checks, na = [], []
for p in props:
    pid = p["id"]
    c = CHECKS.get(pid)
    if c is None:
        na.append({"property_id": pid, "reason": NA_REASON}); continue
    checks.append({"property_id": pid, "quick_cmd": f"./check {pid} --tier quick", "thorough_cmd": f"./check {pid} --tier thorough",
                   "evidence_file": f"evidence/{pid}.json", "replay_cmd_template": f"./check {pid} --replay {{path}}", "engine": "mgverif",
                   "level_claimed": {"category": c["cat"], "text": c["text"], "design_ref": c["ref"]}, "level_note": c["note"], "technique": c["tech"]})
fixes = subprocess.run(["git", "-C", "/repo", "log", "--format=%H %s", "9cd3091..HEAD"], capture_output=True, text=True).stdout.strip().splitlines()
m = {"version": 1, "setup_cmd": "bash setup.sh",
     "hooks": {"guard": "MYGRAD_VERIF", "enable": "MYGRAD_VERIF=1 is exported by ./check; all instrumentation is attached from /verif at import time by wrapping attributes of the mygrad package loaded from /repo/src (mgverif/hooks.py); there are no hook commits in /repo",
               "baseline_off_cmd": "cd /repo && /venv/bin/python -m pytest -ra -q -p no:cacheprovider --timeout=900 --continue-on-collection-errors",
               "source_commits": [], "add_only": True},
     "engines": [{"name": "mgverif", "path": "mgverif/", "serves_properties": [c["property_id"] for c in checks],
                  "kind_free_text": "runtime monitoring harness: DSL program generators, MyGrad and NumPy interpreters, hook layer (monkeypatched wrappers), monitors, finite-difference oracle, sharded runner"}],
     "checks": checks, "not_applicable": na,
     "notes": "Repository repairs (unguarded 'fix:' commits in /repo): " + "; ".join(fixes) if fixes else ""}
json.dump(m, open(os.path.join(HERE, "MANIFEST.json"), "w"), indent=1)
print("claimed", [c["property_id"] for c in checks])

#!/usr/bin/env python3
"""Regenerates MANIFEST.json from the table below (run from /verif)."""
import json, os, subprocess
HERE = os.path.dirname(os.path.dirname(os.path.abspath(__file__)))
props = [json.loads(l) for l in open(os.path.join(HERE, "properties.jsonl"))]
CHECKS = {
 "C01": dict(cat="exploration", tech="runtime differential monitor: longdouble finite-difference oracle (owner-injection rule) + metamorphic reorder/swap re-execution + reachability monitor over generated DAG programs",
             text="Random DAG programs over the whole op table are executed on the real library; every non-constant leaf and intermediate gradient is judged against 5-point+Richardson finite differences of the same program run by NumPy in 80-bit longdouble (tau=1e-8*S), against re-executions with commutative operands swapped and statements re-ordered (1e-12*S), and against syntactic reachability (missing/spurious gradients). Exploration is the right level: the property quantifies over programs and inputs, the oracle is independent of the code under test, and coverage (op classes, fan-out, distinct structures) is measured per run.",
             note="Trusted: NumPy longdouble evaluation as reference semantics; generator bounds (ndim<=3, sides<=3, <=48 elements, <=30 nodes); kink/ill-conditioned directions are skipped and counted (budget 15%).", ref="3/C01"),
 "C04": dict(cat="exploration", tech="runtime reference-model monitor: NumPy shadow executed in lockstep, compared after every statement (values, pairwise shares_memory, .base, identity, constant flag)",
             text="Random histories of view creation, reads and in-place updates (set-item of every index kind, augmented assignment, ufunc out=/where=, .shape assignment) run on tensors and, statement by statement, on NumPy arrays; after every statement every live tensor is compared with its shadow array exactly, every pair's np.shares_memory with the shadow pair's, .base with the name owning the shadow's root array, and object identity / constant flag with their values at creation.",
             note="Trusted: NumPy as the specification of view/in-place semantics. Empty arrays are excluded from sharing/base checks; view functions are applied to tensors only; histories stay in one graph epoch.", ref="3/C04"),
}
NA_REASON = "check under construction (build phase in progress); will be claimed once its monitor is validated on the unchanged tree"
checks, na = [], []
for p in props:
    pid = p["id"]
    c = CHECKS.get(pid)
    if c is None:
        na.append({"property_id": pid, "reason": NA_REASON}); continue
    checks.append({"property_id": pid, "quick_cmd": f"./check {pid} --tier quick", "thorough_cmd": f"./check {pid} --tier thorough",
                   "evidence_file": f"evidence/{pid}.json", "replay_cmd_template": f"./check {pid} --replay {{path}}", "engine": "mgverif",
                   "level_claimed": {"category": c["cat"], "text": c["text"], "design_ref": c["ref"]}, "level_note": c["note"], "technique": c["tech"]})
fixes = subprocess.run(["git", "-C", "/repo", "log", "--format=%H %s", "9cd3091..HEAD"], capture_output=True, text=True).stdout.strip().splitlines()
m = {"version": 1, "setup_cmd": "bash setup.sh",
     "hooks": {"guard": "MYGRAD_VERIF", "enable": "MYGRAD_VERIF=1 is exported by ./check; all instrumentation is attached from /verif at import time by wrapping attributes of the mygrad package loaded from /repo/src (mgverif/hooks.py); there are no hook commits in /repo",
               "baseline_off_cmd": "cd /repo && /venv/bin/python -m pytest -ra -q -p no:cacheprovider --timeout=900 --continue-on-collection-errors",
               "source_commits": [], "add_only": True},
     "engines": [{"name": "mgverif", "path": "mgverif/", "serves_properties": [c["property_id"] for c in checks],
                  "kind_free_text": "runtime monitoring harness: DSL program generators, MyGrad and NumPy interpreters, hook layer (monkeypatched wrappers), monitors, finite-difference oracle, sharded runner"}],
     "checks": checks, "not_applicable": na,
     "notes": "Repository repairs (unguarded 'fix:' commits in /repo): " + "; ".join(fixes) if fixes else ""}
json.dump(m, open(os.path.join(HERE, "MANIFEST.json"), "w"), indent=1)
print("claimed", [c["property_id"] for c in checks])

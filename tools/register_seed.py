#!/usr/bin/env python3
"""register_seed.py <mutant dir> <PID> <seed id> <eval json line file>: copies a confirmed seeded change into /verif/seeded/<seed id>/."""
import json, os, shutil, sys
mdir, pid, sid, evalfile = sys.argv[1:5]
dst = os.path.join("/verif/seeded", sid)
os.makedirs(dst, exist_ok=True)
shutil.copy(os.path.join(mdir, "patch.diff"), os.path.join(dst, "patch.diff"))
shutil.copy(os.path.join(mdir, "demo.py"), os.path.join(dst, "demo.py"))
readme = open(os.path.join(mdir, "README.md")).read() if os.path.exists(os.path.join(mdir, "README.md")) else ""
ev = json.loads([l for l in open(evalfile).read().splitlines() if l.startswith("{")][-1])
meta = {"seed_id": sid, "property": pid, "origin": "independent sub-agent given only the property text and a scratch worktree",
        "needs_to_manifest": readme.strip()[:1800],
        "confirmed": {"applies_to_repo_head": True, "demo_exit_with_patch": ev["demo_with_patch"], "demo_exit_without_patch": ev["demo_without"],
                      "existing_suite_with_patch": "passes (reported by the sub-agent; re-run by me for a sample, see DESIGN.md section 8)"},
        "what_i_ran": f"python3 tools/eval_mutant.py <seed dir> {pid} [--all]  (git -C /repo apply patch.diff; ./check <ID> --no-evidence; git -C /repo checkout -- .)",
        "caught_by_quick": ev["caught_by"], "check_results": ev["results"]}
json.dump(meta, open(os.path.join(dst, "meta.json"), "w"), indent=1)
print("registered", sid, "caught_by", ev["caught_by"])

#!/bin/bash
# runs every thorough tier against the snapshot of /repo's HEAD
for p in C01 C02 C03 C04 C05 C06 C07 C09 C10 C11 C12 C13 C14 C15 C16 C17 C18 C08; do
  s=$(date +%s); MGVERIF_REPO=$VP_RUN_REPO ./check $p --tier thorough --shards 8 2>&1 | grep -E "^\[|INCONCL|^VIOL|monitor=" | cut -c1-300; echo "  ($p took $(( $(date +%s) - s )) s)"
done

"""Debug helper: run a replay file's program on MyGrad, print traceback / grads.  usage: runprog.py REPLAY [--shrunk-json FILE]"""
import json, sys, os, traceback
os.environ["MYGRAD_VERIF"] = "1"
sys.path.insert(0, os.path.dirname(os.path.dirname(os.path.abspath(__file__))))
import numpy as np
from mgverif import hooks
hooks.install()
from mgverif.prog import Interp
blob = json.load(open(sys.argv[1]))
case = blob.get("case", blob)
prog = case["prog"]
it = Interp("mg")
for i, st in enumerate(prog):
    try:
        it.exec(i, st)
    except Exception:
        print("stmt", i, st["k"], "raised:")
        traceback.print_exc()
        break
import mygrad as mg
for n, v in it.env.items():
    if isinstance(v, mg.Tensor):
        g = v.grad
        print(n, "shape", v.shape, "const", v.constant, "base", None if v.base is None else [k for k, w in it.env.items() if w is v.base],
              "grad", None if g is None else np.round(g.ravel()[:6], 4), "" if g is None else ("C" if g.flags.c_contiguous else "") + ("F" if g.flags.f_contiguous else ""))

#!/bin/bash
# offline setup: nothing to build; verify the interpreter and the repository import
set -e
cd "$(dirname "$0")"
mkdir -p out evidence
PYTHONPATH=/repo/src /venv/bin/python -B -c "import mygrad, numpy; print('mygrad', mygrad.__version__, 'numpy', numpy.__version__)"
